"""C06 -- SOCKS5 requests are RFC 1928 well-formed for every target and port.

Real code: _TorSocksFactory/_TorSocksProtocol/_SocksMachine (_create_ip_address, _send_version,
_send_connect_request, _send_resolve_request, _send_resolve_ptr_request).  Symbolic: the port
(0..65535), the hostname characters, the choice of literal.  Oracle: vlib.ref_socks.decode_request
(an independent RFC 1928 request decoder) on the bytes that reached the transport.
"""
import os
from vlib import prelude, shims
from vlib.api import cond, assume, reached, R, known
from vlib import api, fakes, ref_socks

prelude.install()
import struct as _real_struct  # noqa: E402
import socket as _socket  # noqa: E402
import ipaddress as _real_ipaddress  # noqa: E402
import txtorcon.socks as socks  # noqa: E402
from twisted.internet.protocol import Protocol, Factory  # noqa: E402

PROPERTY = 'C06'
ASSUMPTIONS = [
    "name 'struct' inside txtorcon.socks replaced by vlib.shims.StructShim (CrossHair's struct model is unsound for native byte order); "
    'the format strings in the current socks.py are extracted by an AST scan and the shim is validated against the real struct for each',
    "symbolic hostnames start with 'g' (no IP literal does); for those the names ipaddress.ip_address / inet_aton / inet_pton in "
    'txtorcon.socks raise the error their contract prescribes for a non-address instead of being run on the symbolic text '
    '(their error messages would realise it)',
    'IP literals are concrete boundary values chosen by partition; ports are symbolic',
    'three-valued: RESOLVE may carry an IP-literal target either as DOMAINNAME text or as a packed address; its port field is not constrained',
    'native replays use the real struct/ipaddress/socket functions',
]
BOUNDS = {'quick': {'ports': 'all 0..65535 (symbolic)', 'hostname': "'g'+<=3 symbolic chars (0x21..0x7e), lengths 255/256 concrete",
                    'literals': '6 IPv4 + 9 IPv6 (3 with upper-case hex digits)', 'non_ascii': 'one symbolic non-ASCII code point (0x80..0x9f; the UnicodeEncodeError message realises it) at a symbolic position'},
          'thorough': {'hostname': "'g'+<=5 symbolic chars"}}
OUTSIDE = ['symbolic content of hostnames longer than 6 characters', 'IDNA', 'hostnames whose first character is not g (symbolic part)']

V4 = ['0.0.0.0', '255.255.255.255', '1.2.3.4', '127.0.0.1', '10.0.0.255', '192.168.1.1']
V6 = ['::', '::1', '2001:db8:85a3:8d3:1319:8a2e:370:7348', '::ffff:1.2.3.4', 'fe80::1', 'ffff:ffff:ffff:ffff:ffff:ffff:ffff:ffff',
      'FE80::1', '2001:DB8::A', '::FFFF:1.2.3.4']      # hex digits may be written in upper case
TYPES = ['CONNECT', 'RESOLVE', 'RESOLVE_PTR']
CMD = {'CONNECT': 1, 'RESOLVE': 0xF0, 'RESOLVE_PTR': 0xF1}

_mode = ['native']


class _IpStub(object):
    IPv4Address = _real_ipaddress.IPv4Address
    IPv6Address = _real_ipaddress.IPv6Address

    @staticmethod
    def ip_address(h):
        if isinstance(h, str) and h[:1] == 'g':
            raise ValueError('does not appear to be an IPv4 or IPv6 address')
        return _real_ipaddress.ip_address(h)


def _inet_aton(h):
    if isinstance(h, str) and h[:1] == 'g':
        raise OSError('illegal IP address string passed to inet_aton')
    return _socket.inet_aton(h)


def _inet_pton(fam, h):
    if isinstance(h, str) and h[:1] == 'g':
        raise OSError('illegal IP address string passed to inet_pton')
    return _socket.inet_pton(fam, h)


def setup(mode):
    _mode[0] = mode
    if mode == 'symbolic':
        fmts = shims.struct_formats_in(os.path.join(prelude.REPO, 'txtorcon', 'socks.py'))
        shims.validate_struct_shim(fmts)
        socks.struct = shims.StructShim
        socks.ipaddress = _IpStub
        socks.inet_aton = _inet_aton
        socks.inet_pton = _inet_pton
    else:
        socks.struct = _real_struct
        socks.ipaddress = _real_ipaddress
        socks.inet_aton = _socket.inet_aton
        socks.inet_pton = _socket.inet_pton


class _App(Protocol):
    def __init__(self):
        self.data = []

    def dataReceived(self, d):
        self.data.append(d)


class _AppFactory(Factory):
    def buildProtocol(self, addr):
        return _App()


_last_exc = [None]


def _dbg():
    if os.environ.get('VERIF_DEBUG'):
        import sys
        import traceback
        with api.no_tracing():
            tb = traceback.format_exc().splitlines()
            sys.stderr.write('\n'.join(tb[:45] + ['...'] + tb[-6:]) + '\n')


class _ProxyEndpoint(object):
    """stands in for the TCP/unix endpoint of Tor's SOCKS port: builds the protocol of the factory it is given and connects it
    to a recording transport"""

    def __init__(self):
        self.t = fakes.ListTransport()
        self.p = None
        self.err = None

    def connect(self, factory):
        from twisted.internet import defer
        try:
            self.p = factory.buildProtocol(None)
            self.p.makeConnection(self.t)
        except Exception as e:
            self.err = e
            return defer.fail(e)
        return defer.succeed(self.p)


def _drive(req_type, host, port, entry=0):
    """-> (refused: bool, written_before_method_reply, written_after)
    entry 0: _TorSocksFactory directly; 1: the public entry points (socks.resolve / resolve_ptr / TorSocksEndpoint.connect) with a
    str target; 2: the same with the target given as ASCII bytes"""
    _last_exc[0] = None
    if entry:
        target = host.encode('ascii') if entry == 2 else host
        ep = _ProxyEndpoint()
        try:
            if req_type == 'RESOLVE':
                o = fakes.Outcome(socks.resolve(ep, target))
            elif req_type == 'RESOLVE_PTR':
                o = fakes.Outcome(socks.resolve_ptr(ep, target))
            else:
                o = fakes.Outcome(socks.TorSocksEndpoint(ep, target, port).connect(_AppFactory()))
        except Exception as e:
            _last_exc[0] = e
            _dbg()
            return True, b'', b''
        p, t = ep.p, ep.t
        refused = bool(o.err) or ep.err is not None
        if o.err or ep.err is not None:
            _last_exc[0] = ep.err or o.exc()
        if p is None:
            return True, b'', b''
    else:
        try:
            f = socks._TorSocksFactory(host, port, req_type, _AppFactory() if req_type == 'CONNECT' else None)
            p = f.buildProtocol(None)
        except Exception as e:
            _last_exc[0] = e
            _dbg()
            return True, b'', b''
        t = fakes.ListTransport()
        refused = False
        o = fakes.Outcome(p.when_done())
        try:
            p.makeConnection(t)
        except Exception as e:
            _last_exc[0] = e
            _dbg()
            refused = True
    first = b''.join(t.chunks)
    t.chunks = []
    if not refused:
        try:
            p.dataReceived(b'\x05\x00')
        except Exception as e:
            _last_exc[0] = e
            _dbg()
            refused = True
    if o.err:
        refused = True
    return refused, first, b''.join(t.chunks)


def _check(req_type, host, port, kind, encodable, entry=0):
    """kind: 'v4' | 'v6' | 'name'"""
    refused, first, req = _drive(req_type, host, port, entry)
    if first != b'' and first != b'\x05\x01\x00':
        return R('bad-method-selection-message', '%r', first)
    if req_type == 'RESOLVE_PTR' and kind == 'name':
        encodable = False       # a reverse lookup needs an address
    if not encodable:
        if req != b'':
            return R('unencodable-target-sent-anyway', '%r %r -> %r', req_type, host[:20], req[:40])
        if not refused:
            return R('unencodable-target-not-refused', '%r %r', req_type, host[:20])
        reached()
        return ''
    if refused:
        api.note('refused with %r' % (_last_exc[0],))
        return R('encodable-target-refused', '%s %r port %r: %r', req_type, host, port, _last_exc[0])
    if first != b'\x05\x01\x00':
        return R('bad-method-selection-message', '%r', first)
    d = ref_socks.decode_request(req)
    if d is None:
        return R('request-not-decodable', '%s %r port %r -> %r', req_type, host, port, req)
    if d['ver'] != 5 or d['rsv'] != 0:
        return R('bad-version-or-reserved', '%r', req)
    if d['cmd'] != CMD[req_type]:
        return R('wrong-command-code', '%s -> %r', req_type, req)
    as_name = (d['atyp'] == 3 and d['addr'] == host.encode('ascii'))
    if kind == 'v4':
        packed = (d['atyp'] == 1 and d['addr'] == ref_socks.pack_v4(host))
    elif kind == 'v6':
        packed = (d['atyp'] == 4 and d['addr'] == ref_socks.pack_v6(host))
    else:
        packed = False
    if req_type == 'RESOLVE':
        if not (as_name or packed):
            return R('wrong-address', '%s %r -> %r', req_type, host, req)
    elif kind == 'name':
        if not as_name:
            return R('wrong-address', '%s %r -> %r', req_type, host, req)
    else:
        if not packed:
            return R('wrong-address', '%s %r -> atyp %d addr %r', req_type, host, d['atyp'], d['addr'])
    if req_type == 'CONNECT' and d['port'] != port:
        return R('wrong-port', 'port %d sent as %d (%r)', port, d['port'], req[-2:])
    reached()
    return ''


_LIT = [{'rt': r, 'fam': f, 'idx': i} for r in range(3) for f in (4, 6) for i in range(len(V4) if f == 4 else len(V6))]


@cond(quick=dict(parts=_LIT, budget=60))
def c06_literal(port: int, rt: int, fam: int, idx: int, entry: int) -> str:
    """IP literal targets x request types, every port, through the factory and through the public entry points (str / bytes target)"""
    assume(0 <= port <= 65535)
    entry = api.pick(entry, 0, 2)
    if entry and rt != 0:
        assume(port == 0)       # resolve() / resolve_ptr() take no port
    if known('C06-ipv6-connect-truncated'):
        assume(not (rt == 0 and fam == 6))
    host = (V4 if fam == 4 else V6)[idx]
    return _check(TYPES[rt], host, port, 'v4' if fam == 4 else 'v6', True, entry)


_HN = [{'rt': r, 'n': n} for r in range(3) for n in range(0, 4)]
_HN_T = [{'rt': r, 'n': n} for r in range(3) for n in range(0, 6)]


@cond(quick=dict(parts=_HN, budget=100), thorough=dict(parts=_HN_T, budget=900))
def c06_hostname(port: int, tail: str, rt: int, n: int, entry: int) -> str:
    """hostname 'g'+tail with symbolic ASCII tail, every port; names of up to 2 characters also through the public entry points"""
    assume(0 <= port <= 65535)
    entry = api.pick(entry, 0, 2)
    if entry:
        assume(n <= 1 and (rt == 0 or port == 0))
    assume(len(tail) == n)
    for c in tail:
        assume(33 <= ord(c) <= 126)
    return _check(TYPES[rt], 'g' + tail, port, 'name', True, entry)


@cond(quick=dict(parts=[{'rt': r, 'ln': ln} for r in range(3) for ln in (254, 255, 256, 300)], budget=60))
def c06_long(port: int, rt: int, ln: int) -> str:
    """hostname lengths around the 255-byte limit (concrete content)"""
    assume(0 <= port <= 65535)
    host = 'g' + 'a' * (ln - 1)
    return _check(TYPES[rt], host, port, 'name', ln <= 255)


@cond(quick=dict(parts=[{'rt': r, 'n': n, 'pos': q} for r in range(3) for n in (1, 3) for q in range(n)], budget=100))
def c06_nonascii(port: int, ch: str, pos: int, rt: int, n: int) -> str:
    """a non-ASCII code point at position pos of an otherwise concrete name: must be refused, nothing mangled on the wire"""
    assume(0 <= port <= 65535)
    assume(len(ch) == 1)
    o = ord(ch)
    # C1 controls (symbolic range) and letters / punctuation that an IDNA or UTF-8 encoder would happily rewrite
    assume((128 <= o <= 0x9f) or o == 0xdf or o == 0xe9 or o == 0xfc or o == 0x3002 or o == 0x4e2d)
    tail = 'a' * pos + ch + 'b' * (n - pos - 1)
    return _check(TYPES[rt], 'g' + tail, port, 'name', False)


@cond(quick=dict(parts=[{'rt': r} for r in range(3)], budget=100))
def c06_method_selection(ver: int, method: int, rt: int) -> str:
    """the request is sent only after the server selected 'no authentication' (05 00): for every other
    method-selection reply nothing more may be written"""
    assume(0 <= ver <= 255 and 0 <= method <= 255)
    assume(not (ver == 5 and method == 0))
    with api.no_tracing():
        f = socks._TorSocksFactory('example.com' if rt != 2 else '1.2.3.4', 443, TYPES[rt], _AppFactory() if rt == 0 else None)
        p = f.buildProtocol(None)
        t = fakes.ListTransport()
        fakes.Outcome(p.when_done())
        p.makeConnection(t)
        first = b''.join(t.chunks)
        t.chunks = []
    if first != b'\x05\x01\x00':
        return R('bad-method-selection-message', '%r', first)
    try:
        p.dataReceived(ver.to_bytes(1, 'big') + method.to_bytes(1, 'big'))
    except Exception:
        pass
    sent = b''.join(t.chunks)
    if sent != b'':
        return R('request-sent-although-server-did-not-select-no-authentication', 'server said %d %d, client sent %r', ver, method, sent)
    reached()
    return ''


NUMERIC_LOOKING = ['10.1', '1.2.3', '7', '0x7f.1', '01.2.3.4', '1.2.3.4.5', '256.1.1.1', '1.2.3.4x']


@cond(quick=dict(parts=[{'rt': r} for r in range(3)], budget=100))
def c06_numeric_names(port: int, rt: int, idx: int) -> str:
    """targets made of digits and dots that are *not* IPv4 literals (short forms, hex parts, leading zeros, five parts, out of range):
    they are host names and go out as DOMAINNAME with their exact text (RESOLVE_PTR: refused)"""
    assume(0 <= port <= 65535)
    idx = api.pick(idx, 0, len(NUMERIC_LOOKING) - 1)
    return _check(TYPES[rt], NUMERIC_LOOKING[idx], port, 'name', True)
