"""C12 -- SETCONF encodes any keys/values so that Tor parses back exactly them, on one line.

Real code: TorControlProtocol.set_conf (+ maybe_quote) and the framing in
queue_command/_maybe_issue_command.  Symbolic: the value strings (every character a z3
variable), ints.  Oracle: vlib.ref_kvline.decode_items (Tor's kvline grammar) run on the bytes
that reached the transport.
"""
from vlib import prelude
from vlib.api import cond, assume, reached, R
from vlib import fakes
from vlib.ref_kvline import decode_items

prelude.install()

PROPERTY = 'C12'
ASSUMPTIONS = [
    'transport = list-recording ITransport double; protocol object real, transport assigned directly (no authentication)',
    'reference grammar = tor kvline.c KV_QUOTED + unescape_string (vlib/ref_kvline.py)',
    'value characters: printable ASCII 0x20..0x7e plus TAB, CR, LF',
]
BOUNDS = {'quick': {'pairs': '1 (len<=3), 2 (len<=1 each; distinct and repeated key), 3 (one symbolic value len<=1, two literals; every arrangement of 3 key names)', 'int_values': '-1e9..1e9, both bools', 'key_chars': 'len<=2 for the one-line clause'},
          'thorough': {'pairs': '1 (len<=4), 2 (len<=2 each), 3 (one symbolic value len<=2 at any position)'}}
OUTSIDE = ['values longer than 4 characters', 'non-ASCII values', 'more than 3 pairs']


def _ok_char(c):
    o = ord(c)
    return (32 <= o <= 126) or o == 9 or o == 10 or o == 13


def _written(t):
    try:
        return b''.join(t.chunks).decode('ascii')
    except Exception:
        return None


def _check_one_line(w):
    """'' or a reason: exactly one CRLF, at the end, no other CR/LF."""
    if not w.endswith('\r\n'):
        return 'no-crlf-terminator'
    body = w[:-2]
    if '\n' in body or '\r' in body:
        return 'more-than-one-line'
    return ''


def _roundtrip(pairs):
    p, t = fakes.new_protocol()
    args = []
    for k, v in pairs:
        args.append(k)
        args.append(v)
    try:
        d = p.set_conf(*args)
    except Exception as e:
        return R('set_conf-raised', '%s %s', type(e).__name__, e)
    o = fakes.Outcome(d)
    if o.fired:
        # refused (errback'd immediately): acceptable only if nothing was written... but every
        # value in the quantifier IS representable in the grammar, so refusing is a failure too
        return R('set_conf-refused-representable-value', '%r', o.exc())
    w = _written(t)
    if w is None:
        return 'non-ascii-on-wire'
    r = _check_one_line(w)
    if r:
        return R(r, '%r', w)
    body = w[:-2]
    if not body.startswith('SETCONF '):
        return R('not-a-SETCONF', '%r', w)
    items = decode_items(body[8:])
    if items is None:
        return R('line-malformed-for-tor-grammar', '%r', w)
    if len(items) != len(pairs):
        return R('wrong-number-of-items', '%r -> %r', w, items)
    for (k, v), (dk, dv) in zip(pairs, items):
        if dk != k:
            return R('key-differs', '%r -> %r', w, items)
        if dv != str(v):
            return R('value-differs', 'sent %r, tor reads %r from %r', str(v), dv, w)
    reached()
    return ''


CRIT = ' \t\r\n"\\='


def _in_class(c, k):
    """character class k: 0..6 = the critical characters, 7 = any other printable, -1 = unconstrained"""
    if k == -1:
        return True
    if k == 7:
        return not (c == ' ' or c == '\t' or c == '\r' or c == '\n' or c == '"' or c == '\\' or c == '=')
    return c == CRIT[k]


_P3 = [{'n': 0, 'c0': -1, 'c1': -1}, {'n': 1, 'c0': -1, 'c1': -1}] + \
      [{'n': 2, 'c0': a, 'c1': -1} for a in range(8)] + [{'n': 3, 'c0': a, 'c1': -1} for a in range(8)]
_P4 = _P3 + [{'n': 4, 'c0': a, 'c1': b} for a in range(8) for b in range(8)]


@cond(quick=dict(parts=_P3, budget=100), thorough=dict(parts=_P4, budget=600))
def c12_one_pair(v: str, n: int, c0: int, c1: int) -> str:
    """one pair, value symbolic, exact length n; partitions fix the class of the first characters"""
    assume(len(v) == n)
    for c in v:
        assume(_ok_char(c))
    if n >= 1:
        assume(_in_class(v[0], c0))
    if n >= 2:
        assume(_in_class(v[1], c1))
    return _roundtrip([('Foo', v)])


_T1 = [{'n1': a, 'n2': b, 'c0': -1, 'same': s} for a in range(2) for b in range(2) for s in (False, True)]
_T2 = [{'n1': a, 'n2': b, 'c0': -1, 'same': s} for a in range(2) for b in range(3) for s in (False, True)] + \
      [{'n1': 2, 'n2': b, 'c0': k, 'same': s} for b in range(3) for k in range(8) for s in (False, True)]


@cond(quick=dict(parts=_T1, budget=100), thorough=dict(parts=_T2, budget=600))
def c12_two_pairs(v1: str, v2: str, n1: int, n2: int, c0: int, same: bool) -> str:
    """two pairs, both values symbolic; `same`: the key is repeated (how multi-valued options are set)"""
    assume(len(v1) == n1 and len(v2) == n2)
    for c in v1:
        assume(_ok_char(c))
    for c in v2:
        assume(_ok_char(c))
    if n1 >= 1:
        assume(_in_class(v1[0], c0))
    return _roundtrip([('Foo', v1), ('Foo' if same else 'Bar', v2)])


_KEYS3 = ['Foo', 'Bar', 'HiddenServicePort']
_T3 = [{'k1': a, 'k2': b, 'k3': c} for a in range(2) for b in range(3) for c in range(3)]


_T3P = [dict(d, pos=q) for d in _T3 for q in range(3)]


@cond(quick=dict(parts=_T3, pins={'n': 1, 'pos': 1}, budget=100), thorough=dict(parts=_T3P, pins={'n': 2}, budget=600))
def c12_three_pairs(v: str, k1: int, k2: int, k3: int, pos: int, n: int) -> str:
    """three pairs over three key names in every arrangement (repeats included); the value at `pos` is
    symbolic up to n chars, the other two are the literals 'x' and 'a b'"""
    assume(len(v) <= n)
    for c in v:
        assume(_ok_char(c))
    vals = ['x', 'a b']
    vals.insert(pos, v)
    return _roundtrip([(_KEYS3[k1], vals[0]), (_KEYS3[k2], vals[1]), (_KEYS3[k3], vals[2])])


@cond(quick=dict(parts=[{'which': 0}, {'which': 1}, {'which': 2}], budget=100))
def c12_nonstring(i: int, b: bool, which: int) -> str:
    """int / bool values are sent as str(value) (str(int) realises the int: range kept small)"""
    assume(-10**9 <= i <= 10**9)
    if which == 0:
        return _roundtrip([('Foo', i)])
    if which == 1:
        return _roundtrip([('Foo', b)])
    return _roundtrip([('Foo', i), ('Bar', b)])


_KP = [{'maxlen': 1, 'pre': ''}, {'maxlen': 1, 'pre': 'K'}]


@cond(quick=dict(parts=_KP, budget=100), thorough=dict(parts=_KP + [{'maxlen': 2, 'pre': 'K'}], budget=900))
def c12_key_one_line(tail: str, v: str, maxlen: int, pre: str) -> str:
    """whatever a key contains, at most one command line is written (key = concrete prefix + symbolic tail;
    txtorcon's refusal message formats the key with %r, which realises it, hence the short tail)"""
    assume(len(tail) == maxlen and len(v) <= 1)
    for c in tail:
        assume(_ok_char(c))
    for c in v:
        assume(_ok_char(c))
    k = pre + tail
    p, t = fakes.new_protocol()
    try:
        d = p.set_conf(k, v)
        fakes.Outcome(d)
    except Exception:
        d = None
    w = _written(t)
    reached()
    if w is None:
        return 'non-ascii-on-wire'
    if w == '':
        return ''
    r = _check_one_line(w)
    if r:
        return R(r, '%r', w)
    return ''
