"""C17 -- onion listen(): loopback listener, exact port mapping, no leak on failure.

Real code: TCPHiddenServiceEndpoint.__init__/listen, TorOnionListeningPort, TorOnionAddress, and underneath the real
Ephemeral(Authenticated)OnionService.create / _add_ephemeral_service / _await_descriptor_upload on a TorConfig
bootstrapped against SimTor.  Symbolic: the endpoint options, the public port, and the step at which a failure is
injected (configuration, local bind, ADD_ONION rejected, every upload FAILED, disconnect before the reply).
"""
from zope.interface import implementer
from vlib import prelude
from vlib.api import cond, assume, reached, R
from vlib import api, fakes
from harness.c11_config_view import make_world, bootstrap
from harness.c10_config_save import INITIAL
from harness.c14_add_onion import parse_add_onion

prelude.install()
from twisted.internet import defer, error  # noqa: E402
from twisted.internet.address import IPv4Address  # noqa: E402
from twisted.internet.error import ConnectionDone  # noqa: E402
from twisted.internet.interfaces import IListeningPort  # noqa: E402
from twisted.internet.protocol import Factory  # noqa: E402
from twisted.internet.testing import MemoryReactorClock  # noqa: E402
from twisted.python.failure import Failure  # noqa: E402
import txtorcon.endpoints as endpoints  # noqa: E402
from txtorcon.endpoints import TCPHiddenServiceEndpoint  # noqa: E402
from txtorcon.onion import AuthBasic, AuthStealth  # noqa: E402
from txtorcon.torcontrolprotocol import TorProtocolError, TorDisconnectError  # noqa: E402

PROPERTY = 'C17'
ASSUMPTIONS = [
    'reactor = MemoryReactorClock whose listenTCP returns a recording IListeningPort double (interface, port, stopListening calls); '
    'Twisted\'s endpoint plugin cache is warmed natively before the analysis',
    'Tor = SimTor behind a real protocol and a real, natively bootstrapped TorConfig',
    'tempfile.mkdtemp (name in txtorcon.endpoints) returns a fixed path; nothing touches the real file system',
    'the failure cases cover ephemeral services (ADD_ONION); filesystem services are covered by the option table only',
]
BOUNDS = {'quick': {'options': 'ephemeral {None,T,F} x hidden_service_dir x auth {none,basic,stealth} x stealth_auth x private_key x single_hop x version',
                    'fault_steps': 9, 'auth': 'none; basic with one client (own token / token from Tor) and two clients', 'descriptor_wait': 'with / without a second service publishing to another directory meanwhile', 'public_port': 'symbolic 1..65535'},
          'thorough': {}}
OUTSIDE = ['real sockets / file systems', 'filesystem-service listen() (needs hostname files on disk)', 'TCPHiddenServiceEndpointParser private-key files']

SID = 'abcdefghijklmnop'
_RSA = []


def _rsa():
    """a throw-away RSA-1024 key (generated once, natively) and its permanent id computed independently of txtorcon:
    base32 of the first 10 bytes of SHA1 over the PKCS#1 DER public key"""
    if not _RSA:
        import base64
        import hashlib
        from cryptography.hazmat.primitives.asymmetric import rsa
        from cryptography.hazmat.primitives import serialization
        from cryptography.hazmat.backends import default_backend
        key = rsa.generate_private_key(public_exponent=65537, key_size=1024, backend=default_backend())
        pem = key.private_bytes(serialization.Encoding.PEM, serialization.PrivateFormat.TraditionalOpenSSL, serialization.NoEncryption())
        blob = ''.join(pem.decode('ascii').strip().split('\n')[1:-1])
        der = key.public_key().public_bytes(serialization.Encoding.DER, serialization.PublicFormat.PKCS1)
        permid = base64.b32encode(hashlib.sha1(der).digest()[:10]).decode('ascii').lower()
        _RSA.append((blob, permid))
    return _RSA[0]


# use_auth: 0 none; 1..3 basic authentication with these client lists (a tuple carries the client's token, a bare name gets one from Tor)
AUTH_CLIENTS = [None, [('alice', 'dG9rZW4x')], ['bob'], [('alice', 'dG9rZW4x'), 'bob']]
LOCAL_PORT = 43210


@implementer(IListeningPort)
class FakePort(object):
    def __init__(self, interface, port):
        self.interface = interface
        self.port = port
        self.stopped = 0

    def getHost(self):
        return IPv4Address('TCP', self.interface or '0.0.0.0', self.port)

    def startListening(self):
        pass

    def stopListening(self):
        self.stopped += 1
        return defer.succeed(None)


class Reactor(MemoryReactorClock):
    def __init__(self, fail_bind=False):
        MemoryReactorClock.__init__(self)
        self.ports = []
        self.fail_bind = fail_bind
        self.triggers = []

    def listenTCP(self, port, factory, backlog=50, interface=''):
        if self.fail_bind:
            raise error.CannotListenError(interface, port, OSError('address in use'))
        fp = FakePort(interface, (LOCAL_PORT + len(self.ports)) if port == 0 else port)
        self.ports.append(fp)
        return fp

    def addSystemEventTrigger(self, *a, **kw):
        self.triggers.append(a)
        return a


def setup(mode):
    # warm Twisted's endpoint-plugin cache outside the tracer
    from twisted.internet.endpoints import serverFromString
    serverFromString(MemoryReactorClock(), 'tcp:0:interface=127.0.0.1')
    endpoints.tempfile = type('T', (), {'mkdtemp': staticmethod(lambda prefix='': '/nonexistent/tortmp-harness')})


def _listen(version, use_auth, single_hop, with_key, public_port, fault, with_local_port=False, retry=False, foreign=False):
    """fault: 0 none, 1 config Deferred fails, 2 config is not a TorConfig, 3 local bind fails, 4 ADD_ONION rejected,
    5 every upload FAILED, 6 connection lost before the ADD_ONION reply, 7 key blob with a line break, 8 version 3 with an RSA key
    (7 and 8: service creation refuses with a ValueError once the local listener is bound)"""
    p, t, tor = make_world(dict(INITIAL), True, {})
    p._set_valid_events('CONF_CHANGED HS_DESC CIRC STREAM')
    cfg, out = bootstrap(p, tor)
    if out.ok != 1:
        return 'harness: bootstrap failed %r' % (out.exc(),)
    reactor = Reactor(fail_bind=(fault == 3))
    held = []
    sid = SID
    clients = AUTH_CLIENTS[use_auth]
    if use_auth:
        blob, sid = _rsa()

    def handler(ln):
        if ln.startswith('ADD_ONION'):
            if fault == 4:
                return ['512 Invalid VIRTPORT/TARGET']
            if use_auth:
                rep = ['250-ServiceID=' + sid]
                if ' NEW:' in ln:
                    rep.append('250-PrivateKey=RSA1024:' + blob)
                rep += ['250-ClientAuth=%s:dG9yLXRva2Vu' % c for c in clients if not isinstance(c, tuple)]
                return rep + ['250 OK']
            return ['250-ServiceID=' + SID, '250-PrivateKey=ED25519-V3:dG9y', '250 OK']
        return ['250 OK']
    tor.onion_handler = handler
    orig_answer = tor.answer

    def answer(ln):
        if ln.startswith('ADD_ONION') and fault == 6 and not held:
            held.append(ln)
            return
        orig_answer(ln)
    tor.answer = answer

    injected = RuntimeError('no configuration')
    if fault == 1:
        config = defer.fail(injected)
    elif fault == 2:
        config = object()
    else:
        config = cfg
    pkey = ('ED25519-V3:c2VjcmV0' if version == 3 else 'RSA1024:c2VjcmV0') if with_key else None
    if use_auth and with_key:
        pkey = 'RSA1024:' + blob
    if fault == 7:
        pkey = pkey.replace(':c2Vj', ':c2Vj\n')       # a key blob with a line break: refused when the command is built, after the bind
    if fault == 8:
        pkey = 'RSA1024:c2VjcmV0'                      # (version 3) a key of the other kind: likewise
    try:
        ep = TCPHiddenServiceEndpoint(reactor, config, public_port, ephemeral=True, private_key=pkey,
                                      version=version, single_hop=single_hop, auth=AuthBasic(list(clients)) if use_auth else None,
                                      local_port=8080 if with_local_port else None)
        o = fakes.Outcome(ep.listen(Factory()))
        tor.pump()
        if fault == 6:
            if o.fired:
                return R('listen-fired-before-the-service-exists')
            tor.dead = True
            p.connectionLost(Failure(ConnectionDone()))
        adds = [ln for ln in tor.lines if ln.startswith('ADD_ONION')]
        for fp in reactor.ports:
            if fp.interface != '127.0.0.1':
                return R('local-listener-not-on-loopback', '%r', fp.interface)
        if len(reactor.ports) > 1:
            return R('more-than-one-local-listener')
        if fault in (7, 8) and adds:
            return R('ADD_ONION-sent-with-an-unusable-key', '%r', adds)
        if fault in (0, 5):
            if len(adds) != 1:
                return R('not-exactly-one-ADD_ONION', '%r', adds)
            d = parse_add_onion(adds[0])
            if d is None or d['ports'] != ['%d,127.0.0.1:%d' % (public_port, reactor.ports[-1].port)]:
                return R('tor-not-asked-to-forward-the-public-port-to-the-local-listener', '%r', adds[0])
            if use_auth:
                want_c = ['%s:%s' % c if isinstance(c, tuple) else c for c in clients]
                if d['clients'] != want_c or 'BasicAuth' not in (d['flags'] or ()):
                    return R('ADD_ONION-does-not-carry-the-requested-authentication', '%r', adds[0])
            elif d['clients'] or 'BasicAuth' in (d['flags'] or ()):
                return R('ADD_ONION-carries-authentication-nobody-asked-for', '%r', adds[0])
            if o.fired:
                return R('listen-fired-before-the-descriptor-wait-was-over')
            hsdir = '$' + 'A' * 40 + '~d'
            p.lineReceived(('650 HS_DESC UPLOAD %s UNKNOWN %s x' % (sid, hsdir)).encode('ascii'))
            if o.fired:
                return R('listen-fired-before-the-descriptor-wait-was-over')
            if foreign:
                # another service publishing on the same Tor, to a directory this service did not use
                other, odir = 'qrstuvwxyzabcdef', '$' + 'B' * 40 + '~e'
                p.lineReceived(('650 HS_DESC UPLOAD %s UNKNOWN %s x' % (other, odir)).encode('ascii'))
                p.lineReceived(('650 HS_DESC UPLOADED %s UNKNOWN %s' % (other, odir)).encode('ascii'))
                tor.pump()
                if o.fired:
                    return R('listen-fired-on-another-services-upload', 'ok=%d err=%d', o.ok, o.err)
            if fault == 0:
                p.lineReceived(('650 HS_DESC UPLOADED %s UNKNOWN %s' % (sid, hsdir)).encode('ascii'))
            else:
                p.lineReceived(('650 HS_DESC FAILED %s UNKNOWN %s x REASON=UPLOAD_REJECTED' % (sid, hsdir)).encode('ascii'))
            tor.pump()
        if fault == 0:
            if o.ok != 1:
                return R('listen-did-not-succeed', 'ok=%d err=%d %r', o.ok, o.err, o.exc())
            port = o.value
            host = port.getHost()
            if host.onion_uri != sid + '.onion' or host.onion_port != public_port:
                return R('address-does-not-report-tor-hostname-and-public-port', '%r %r (Tor assigned %s)', host.onion_uri, host.onion_port, sid)
            if use_auth:
                svc = port.onion_service
                want_names = sorted(c[0] if isinstance(c, tuple) else c for c in clients)
                if sorted(svc.client_names()) != want_names:
                    return R('authenticated-service-lists-wrong-clients', '%r want %r', sorted(svc.client_names()), want_names)
                for c in clients:
                    nm, tok = (c if isinstance(c, tuple) else (c, 'dG9yLXRva2Vu'))
                    if svc.get_client(nm).auth_token != tok:
                        return R('client-token-wrong', '%s: %r want %r', nm, svc.get_client(nm).auth_token, tok)
            if reactor.ports[0].stopped:
                return R('local-listener-closed-on-success')
            port.stopListening()
            if reactor.ports[0].stopped != 1:
                return R('stopListening-does-not-close-the-local-listener')
        else:
            if o.fired != 1 or o.err != 1:
                return R('listen-did-not-fail-once', 'fault %d: ok=%d err=%d', fault, o.ok, o.err)
            e = o.exc()
            same = {1: e is injected,
                    2: isinstance(e, (ValueError, TypeError)),
                    3: isinstance(e, error.CannotListenError),
                    4: isinstance(e, TorProtocolError) and e.code == 512,
                    5: isinstance(e, RuntimeError) and 'upload' in str(e).lower(),
                    6: isinstance(e, TorDisconnectError),
                    7: isinstance(e, ValueError), 8: isinstance(e, ValueError)}[fault]
            if not same:
                return R('listen-failed-with-another-error-than-the-one-that-occurred', 'fault %d: %r', fault, e)
            open_ports = [fp for fp in reactor.ports if not fp.stopped]
            if open_ports:
                return R('local-listener-left-open-after-failed-listen', 'fault %d: port %d still listening', fault, open_ports[0].port)
            if retry and fault in (4, 5):
                # a second attempt on the same endpoint binds a fresh local port; Tor must be pointed at *that* one
                fault = 0
                n_add = len([ln for ln in tor.lines if ln.startswith('ADD_ONION')])
                o2 = fakes.Outcome(ep.listen(Factory()))
                tor.pump()
                adds = [ln for ln in tor.lines if ln.startswith('ADD_ONION')][n_add:]
                live = [fp for fp in reactor.ports if not fp.stopped]
                if len(adds) != 1 or len(live) != 1:
                    return R('retry-did-not-bind-and-ask-once', 'adds %r live %d', adds, len(live))
                d2 = parse_add_onion(adds[0])
                if d2 is None or d2['ports'] != ['%d,127.0.0.1:%d' % (public_port, live[0].port)]:
                    return R('tor-not-asked-to-forward-the-public-port-to-the-local-listener', 'retry: listening on %d, asked %r', live[0].port, adds[0])
    except Exception as e:
        return R('exception', '%s: %s', type(e).__name__, e)
    reached()
    return ''


@cond(quick=dict(parts=[{'fault': f} for f in range(9)], budget=100))
def c17_listen(fault: int, version: int, single_hop: bool, with_key: bool, public_port: int, with_local_port: bool, retry: bool, foreign: bool,
               use_auth: int) -> str:
    """ephemeral endpoint, failure injected at step `fault`; version / single-hop / key / public port / caller-supplied
    local_port / a retry of listen() after the failure chosen by the solver"""
    version = api.pick_from(version, (2, 3))
    public_port = api.pick_from(public_port, (1, 80, 65535))
    if fault not in (4, 5):
        assume(not retry)
    if fault not in (0, 5):
        assume(not foreign)
    if fault == 7:
        assume(with_key)
    if fault == 8:
        assume(with_key and version == 3)
    use_auth = api.pick(use_auth, 0, 3)
    if use_auth:
        # basic authentication: version 2 services (the permanent id comes from an RSA key); tried on the success path and with every
        # failure that does not depend on the key text
        assume(version == 2 and fault not in (7, 8) and not single_hop and not with_local_port and not retry)
    with api.no_tracing():
        return _listen(version, use_auth, True if single_hop else False, True if with_key else False, public_port, fault,
                       True if with_local_port else False, True if retry else False, True if foreign else False)


def _valid(ephemeral, hsdir, auth, stealth_auth, private_key, single_hop):
    """validity table from the constructor's documentation"""
    if stealth_auth and auth != 0:
        return False
    eff_eph = ephemeral if ephemeral is not None else (not hsdir)
    eff_auth = 2 if stealth_auth else auth
    if eff_eph and eff_auth == 2:
        return False
    if eff_eph and hsdir:
        return False
    if private_key and not eff_eph:
        return False
    if single_hop and not eff_eph:
        return False
    return True


@cond(quick=dict(budget=100))
def c17_options(eph: int, hsdir: bool, auth: int, stealth_auth: bool, private_key: bool, single_hop: bool, version: int) -> str:
    """every constructor option combination: invalid ones are refused before anything is started"""
    eph = api.pick(eph, 0, 2)
    auth = api.pick(auth, 0, 2)
    version = api.pick_from(version, (0, 2, 3))
    ephemeral = [None, True, False][eph]
    with api.no_tracing():
        reactor = Reactor()
        p, t = fakes.new_protocol()
        kw = dict(ephemeral=ephemeral, hidden_service_dir='/var/lib/tor/hs' if hsdir else None,
                  auth=[None, AuthBasic(['alice']), AuthStealth(['alice'])][auth],
                  stealth_auth=['alice'] if stealth_auth else None,
                  private_key='ED25519-V3:c2VjcmV0' if private_key else None,
                  single_hop=True if single_hop else False, version=version or None)
        try:
            TCPHiddenServiceEndpoint(reactor, defer.Deferred(), 80, **kw)
            raised = None
        except ValueError as e:
            raised = e
        except Exception as e:
            return R('unexpected-exception', '%s: %s', type(e).__name__, e)
        ok = _valid(ephemeral, hsdir, auth, True if stealth_auth else False, True if private_key else False, True if single_hop else False)
        if ok and raised is not None:
            return R('valid-combination-refused', '%r: %s', kw, raised)
        if not ok and raised is None:
            return R('invalid-combination-accepted', '%r', kw)
        if reactor.ports or b''.join(t.chunks):
            return R('activity-before-listen')
        if raised is not None and reactor.triggers:
            return R('something-started-before-the-refusal')
    reached()
    return ''


def _entry_points(entry, hsdir, private_key, single_hop, version, ctl):
    """entry 0: the `onion:` string parser (TCPHiddenServiceEndpointParser.parseStreamServer); 1: TCPHiddenServiceEndpoint.system_tor;
    2: .global_tor; 3: .private_tor.  Nothing may be started (no control connection, no Tor launch) when the combination is invalid"""
    import txtorcon.controller as controller_mod
    reactor = Reactor()
    started = []

    class FakeClientEndpoint(object):
        def connect(self, factory):
            started.append('control connection')
            return defer.Deferred()
    saved = (endpoints.get_global_tor_instance, controller_mod.launch, controller_mod.connect, endpoints.clientFromString)
    pending = []

    def starter(what):
        def start(*a, **kw):
            started.append(what)
            d = defer.Deferred()
            pending.append(d)
            return d
        return start
    endpoints.get_global_tor_instance = starter('global tor')
    controller_mod.launch = starter('launch')
    controller_mod.connect = starter('connect')
    endpoints.clientFromString = lambda r, desc: FakeClientEndpoint()
    valid = _valid(None, hsdir, 0, False, private_key, single_hop) and version in (None, 2, 3)
    kw = dict(hidden_service_dir='/var/lib/tor/hs' if hsdir else None, private_key='ED25519-V3:c2VjcmV0' if private_key else None,
              single_hop=True if single_hop else False, version=version)
    try:
        try:
            if entry == 0:
                from txtorcon.endpoints import TCPHiddenServiceEndpointParser
                ep = TCPHiddenServiceEndpointParser().parseStreamServer(
                    reactor, '80', controlPort='9051' if ctl else None, hiddenServiceDir=kw['hidden_service_dir'], privateKey=kw['private_key'],
                    version=None if version is None else str(version), singleHop='true' if single_hop else None)
            elif entry == 1:
                ep = TCPHiddenServiceEndpoint.system_tor(reactor, FakeClientEndpoint(), 80, **kw)
            elif entry == 2:
                ep = TCPHiddenServiceEndpoint.global_tor(reactor, 80, **kw)
            else:
                ep = TCPHiddenServiceEndpoint.private_tor(reactor, 80, **kw)
            refused = False
            if valid and entry != 0 and len(pending) == 1:
                # the connection / launch this endpoint depends on fails: listen() fails with that very error, nothing is left open
                boom = RuntimeError('tor is not available')
                o = fakes.Outcome(ep.listen(Factory()))
                pending[0].errback(Failure(boom))
                if o.fired != 1 or o.err != 1 or o.exc() is not boom:
                    return R('listen-did-not-fail-with-the-error-of-the-failed-connection-or-launch', 'entry %d: fired=%d ok=%d %r', entry, o.fired, o.ok, o.exc())
                if [fp for fp in reactor.ports if not fp.stopped]:
                    return R('local-listener-left-open-after-failed-listen', 'entry %d', entry)
        except (ValueError, RuntimeError):
            refused = True
    finally:
        (endpoints.get_global_tor_instance, controller_mod.launch, controller_mod.connect, endpoints.clientFromString) = saved
    if valid and refused:
        return R('valid-combination-refused', 'entry %d %r', entry, kw)
    if not valid:
        if not refused:
            return R('invalid-combination-accepted', 'entry %d %r', entry, kw)
        if started or reactor.ports or reactor.tcpClients or reactor.unixClients:
            return R('something-was-started-before-the-invalid-combination-was-refused', 'entry %d %r: %r', entry, kw, started)
    reached()
    return ''


@cond(quick=dict(budget=100))
def c17_entry_points(entry: int, hsdir: bool, private_key: bool, single_hop: bool, version: int, ctl: bool) -> str:
    """the option combinations through the `onion:` string parser and the system_tor / global_tor / private_tor constructors:
    an invalid one is refused before a control connection or a Tor launch is started"""
    entry = api.pick(entry, 0, 3)
    version = api.pick_from(version, (0, 2, 3, 4))
    if entry != 0:
        assume(not ctl)
        assume(version != 4)      # (a version other than 2 / 3 is a bad value rather than a bad combination; only the string parser documents a check)
    with api.no_tracing():
        return _entry_points(entry, True if hsdir else False, True if private_key else False, True if single_hop else False,
                             version or None, True if ctl else False)
