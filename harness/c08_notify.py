"""C08 -- one notification per transition; built/closed waits complete exactly once.

Real code: Circuit.update/update_path/listen/unlisten/when_built/when_closed/close/
maybe_call_closing_deferred, Stream.update/_notify/listen/unlisten/close,
TorState.add_circuit_listener/add_stream_listener/_maybe_create_circuit/_stream_update/
circuit_closed/circuit_failed/circuit_destroy/close_circuit/close_stream.
Symbolic: the event history (as C07), the positions where listeners are added / removed, where
waits are requested, and where Tor's acknowledgement of the close command arrives relative to
the CLOSED event.
"""
from zope.interface import implementer
from vlib import prelude
from vlib.api import cond, assume, reached, R
from vlib import api, fakes
from vlib.ref_tor import TorModel, admissible_prefixes, NC

prelude.install()
from txtorcon.interface import ICircuitListener, IStreamListener  # noqa: E402
from harness.c07_state import new_state, deliver, SNAPSHOTS  # noqa: E402

PROPERTY = 'C08'
ASSUMPTIONS = [
    'state / model / event alphabet as in C07',
    'listener doubles record (method, object id, extra arguments); flags must arrive in upper and lower case',
    'Tor acknowledges CLOSECIRCUIT / CLOSESTREAM with 250 OK at a symbolic position (before or after the CLOSED event)',
    'three-valued: a close request rejected by Tor (5xx) may fail or stay pending',
]
BOUNDS = {'quick': {'listener_histories': '3 events, listener added/removed at symbolic positions', 'wait_histories': 'one circuit / one stream, all orders of request, ack, event'},
          'thorough': {'listener_histories': '4 events'}}
OUTSIDE = ['more than 2 circuits / 2 streams', 'listeners that raise']


@implementer(ICircuitListener, IStreamListener)
class Rec(object):
    def __init__(self):
        self.log = []

    def circuit_new(self, c):
        self.log.append(('circuit_new', c.id))

    def circuit_launched(self, c):
        self.log.append(('circuit_launched', c.id))

    def circuit_extend(self, c, router):
        self.log.append(('circuit_extend', c.id, router.id_hex))

    def circuit_built(self, c):
        self.log.append(('circuit_built', c.id))

    def circuit_closed(self, c, **kw):
        self.log.append(('circuit_closed', c.id, kw.get('REASON'), kw.get('reason')))

    def circuit_failed(self, c, **kw):
        self.log.append(('circuit_failed', c.id, kw.get('REASON'), kw.get('reason')))

    def stream_new(self, s):
        self.log.append(('stream_new', s.id))

    def stream_succeeded(self, s):
        self.log.append(('stream_succeeded', s.id))

    def stream_attach(self, s, c):
        self.log.append(('stream_attach', s.id, c.id))

    def stream_detach(self, s, **kw):
        self.log.append(('stream_detach', s.id, kw.get('REASON'), kw.get('reason')))

    def stream_closed(self, s, **kw):
        self.log.append(('stream_closed', s.id, kw.get('REASON'), kw.get('reason')))

    def stream_failed(self, s, **kw):
        self.log.append(('stream_failed', s.id, kw.get('REASON'), kw.get('reason')))


class HookRec(Rec):
    """a global listener that reacts to every new circuit / stream by attaching a second listener (`late`) to that very object,
    from inside the notification"""

    def __init__(self, late):
        Rec.__init__(self)
        self.late = late
        self.hooked = []

    def circuit_new(self, c):
        Rec.circuit_new(self, c)
        c.listen(self.late)
        self.hooked.append(c)

    def stream_new(self, s):
        Rec.stream_new(self, s)
        s.listen(self.late)
        self.hooked.append(s)


def _expand(entry):
    """model log entry -> what a listener must record"""
    name = entry[0]
    if name in ('circuit_closed', 'circuit_failed', 'stream_detach', 'stream_closed', 'stream_failed'):
        return (name, entry[1], entry[2], entry[2])
    return entry


def _listeners(events, add_at, per_at, un_at, prefix=()):
    state, p, t = new_state()
    model = TorModel()
    with api.no_tracing():      # concrete prefix, delivered as events before any listener is attached
        for e in prefix:
            kindname, payload = model.apply(e)
            deliver(state, kindname, payload)
    late = Rec()
    g1 = HookRec(late)
    g2 = Rec()
    per = Rec()
    want = {'g1': [], 'g2': [], 'per': [], 'late': []}
    per_objs = None
    try:
        state.add_circuit_listener(g1)
        state.add_stream_listener(g1)
        g2_on = False
        g2_off = None
        n = model.nevents()
        for i in range(len(events)):
            if i == add_at:
                state.add_circuit_listener(g2)
                state.add_stream_listener(g2)
                g2_on = True
            if i == per_at:
                per_objs = (list(state.circuits.values()), list(state.streams.values()))
                for o in per_objs[0] + per_objs[1]:
                    o.listen(per)
                if g2_on:
                    # the global listener g2 is taken off the objects that exist now ...
                    g2_off = per_objs[0] + per_objs[1]
                    for o in g2_off:
                        o.unlisten(g2)
            if i == un_at and per_objs is not None:
                for o in per_objs[0] + per_objs[1]:
                    o.unlisten(per)
                per_objs = None
                if g2_off is not None:
                    # ... and registered again: it must hear every object again, old and new
                    state.add_circuit_listener(g2)
                    state.add_stream_listener(g2)
                    g2_off = None
            e = api.pick(events[i], 0, n - 1)
            assume(model.enabled(e))
            kind, oid, _ev = model.decode(e)
            kindname, payload = model.apply(e)
            if model.log is None:
                assume(False)       # (event without a defined notification list: covered by C07 only)
            exp = [_expand(x) for x in model.log]
            want['g1'] += exp
            if g2_on:
                cur0 = (state.circuits if kind == 'C' else state.streams).get(oid)
                if not (g2_off is not None and cur0 is not None and any(cur0 is o for o in g2_off)):
                    want['g2'] += exp
            if per_objs is not None:
                ids = [o.id for o in (per_objs[0] if kind == 'C' else per_objs[1])]
                # only objects that existed when `per` subscribed (ids may be re-used by new objects)
                objs = per_objs[0] if kind == 'C' else per_objs[1]
                cur = (state.circuits if kind == 'C' else state.streams).get(oid)
                if cur is not None and any(cur is o for o in objs):
                    want['per'] += exp
            # `late` is attached by g1 while the object's *_new notification is being delivered: it must hear everything about that
            # object from then on, the rest of the same event included (whether it also hears that *_new itself is left open)
            cur1 = (state.circuits if kind == 'C' else state.streams).get(oid)
            created = any(x[0] in ('circuit_new', 'stream_new') for x in model.log)
            if created or (cur1 is not None and any(cur1 is o for o in g1.hooked)):
                want['late'] += [x for x in exp if x[0] not in ('circuit_new', 'stream_new')]
            deliver(state, kindname, payload)
            if [x for x in late.log if x[0] not in ('circuit_new', 'stream_new')] != want['late']:
                return R('listener-notifications-differ', 'after event %d (%s %r): a listener attached from inside the *_new notification got %r want %r',
                         i, kindname, payload, late.log[-4:], want['late'][-4:])
            for nm, rec in (('g1', g1), ('g2', g2), ('per', per)):
                if rec.log != want[nm]:
                    return R('listener-notifications-differ', 'after event %d (%s %r): listener %s got %r want %r', i, kindname, payload, nm,
                             rec.log[-4:], want[nm][-4:])
    except Exception as e:
        return R('exception', '%s: %s', type(e).__name__, e)
    reached()
    return ''


_E = 34


_P2 = [{'e1': a, 'e2': b} for (a, b) in admissible_prefixes(2)]
_P3 = [{'e1': a, 'e2': b, 'e3': c} for (a, b, c) in admissible_prefixes(3)]


@cond(quick=dict(parts=_P2, budget=100))
def c08_listeners3(e1: int, e2: int, e3: int, add_at: int, per_at: int, un_at: int) -> str:
    """3 events; a second global listener added before event add_at; a per-object listener subscribed to the objects
    existing before event per_at and unsubscribed before event un_at"""
    add_at = api.pick(add_at, 0, 3)
    per_at = api.pick(per_at, 1, 3)
    un_at = api.pick(un_at, 1, 3)
    assume(per_at <= un_at)
    return _listeners([e1, e2, e3], add_at, per_at, un_at)


def _after_parts(snaps):
    out = []
    for sn in snaps:
        m = TorModel()
        for e in SNAPSHOTS[sn]:
            m.apply(e)
        for e1 in range(m.nevents()):
            if m.enabled(e1):
                out.append({'snap': sn, 'e1': e1})
    return out


@cond(quick=dict(parts=_after_parts([2, 4]), budget=150), thorough=dict(parts=_after_parts(range(1, len(SNAPSHOTS))), budget=600))
def c08_listeners_after(snap: int, e1: int, e2: int, e3: int, add_at: int) -> str:
    """3 events after a concrete prefix that leaves built circuits with attached streams (re-attachment, circuit closing
    under a stream, ...); listeners attached to already existing objects"""
    add_at = api.pick(add_at, 0, 3)
    return _listeners([e1, e2, e3], add_at, 99, 99, SNAPSHOTS[snap])


@cond(thorough=dict(parts=_P3, budget=300))
def c08_listeners4(e1: int, e2: int, e3: int, e4: int, add_at: int, per_at: int, un_at: int) -> str:
    """4 events"""
    add_at = api.pick(add_at, 0, 4)
    per_at = api.pick(per_at, 1, 4)
    un_at = api.pick(un_at, 1, 4)
    assume(per_at <= un_at)
    return _listeners([e1, e2, e3, e4], add_at, per_at, un_at)


# ------------------------------------------------------------------ waits
def _answer(p, t, st, code_ok):
    """Tor answers the oldest unanswered command"""
    lines = b''.join(t.chunks).split(b'\r\n')[:-1]
    if st['answered'] < len(lines):
        st['answered'] += 1
        p.lineReceived(b'250 OK' if code_ok else b'552 Unknown circuit/stream')
        return True
    return False


def _circuit_waits(ops):
    """ops over one circuit: 0 LAUNCHED 1 EXTENDED 2 BUILT 3 CLOSED 4 FAILED (Tor events, if admissible),
    5 when_built() 6 when_closed() 7 close() 9 close(IfUnused=True) 8 Tor acknowledges the oldest unanswered command"""
    state, p, t = new_state()
    model = TorModel(ncirc=1, nstream=0)
    st = {'answered': 0}
    built = []
    closed = []
    closes = []
    ever_built = False
    gone = False
    circ = None
    try:
        for op in ops:
            if op <= 4:
                ev = [0, 1, 3, 4, 5][op]
                assume(model.enabled(ev))
                kind, payload = model.apply(ev)
                deliver(state, kind, payload)
                if circ is None:
                    circ = state.circuits[1]
                if ev == 3:
                    ever_built = True
                if ev in (4, 5):
                    gone = True
            elif circ is None:
                assume(False)
            elif op == 5:
                built.append(fakes.Outcome(circ.when_built()))
            elif op == 6:
                closed.append(fakes.Outcome(circ.when_closed()))
            elif op == 7:
                closes.append(fakes.Outcome(circ.close()))
            elif op == 9:
                closes.append(fakes.Outcome(circ.close(IfUnused=True)))      # the same request with Tor's one flag
            else:
                assume(_answer(p, t, st, not gone))
            # ---- monitors after every step
            for o in built:
                if o.fired > 1:
                    return R('when_built-fired-twice')
                if ever_built and o.ok != 1:
                    return R('when_built-not-successful-although-BUILT-was-reached')
                if gone and not ever_built and o.err != 1:
                    return R('when_built-not-failed-although-circuit-ended-before-BUILT')
                if not ever_built and not gone and o.fired:
                    return R('when_built-fired-before-any-deciding-event')
            for o in closed:
                if o.fired > 1:
                    return R('when_closed-fired-twice')
                if gone != (o.fired == 1):
                    return R('when_closed-%s' % ('not-fired-after-circuit-ended' if gone else 'fired-early'))
            for o in closes:
                if o.fired > 1:
                    return R('close-fired-twice')
                if not gone and o.ok:
                    return R('close-completed-before-Tor-reported-the-circuit-gone')
        # end: let Tor acknowledge everything; then every close() of a gone circuit must have completed
        while _answer(p, t, st, not gone):
            pass
        if gone:
            for o in closes:
                if o.fired != 1:
                    return R('close-never-completed-although-circuit-gone-and-acknowledged', 'ops %r', ops)
    except Exception as e:
        return R('exception', '%s: %s', type(e).__name__, e)
    reached()
    return ''


def _stream_waits(ops):
    """ops over one stream on one built circuit: 0 NEW 1 SENTCONNECT 2 SUCCEEDED 3 CLOSED 4 FAILED 5 DETACHED (Tor events),
    7 close() 8 Tor acknowledges the oldest unanswered command"""
    state, p, t = new_state()
    model = TorModel(ncirc=1, nstream=1)
    with api.no_tracing():
        for ev in (0, 1, 3):
            kind, payload = model.apply(ev)
            deliver(state, kind, payload)
    st = {'answered': 0}
    closes = []
    gone = False
    stream = None
    try:
        for op in ops:
            if op <= 5:
                ev = NC + [0, 1, 4, 6, 7, 5][op]      # stream events start at NC when ncirc=1 (5 = DETACHED)
                assume(model.enabled(ev))
                kind, payload = model.apply(ev)
                deliver(state, kind, payload)
                if stream is None:
                    stream = state.streams[1]
                if op in (3, 4):
                    gone = True
            elif stream is None or gone:
                assume(False)      # close requests are made on a live stream
            elif op == 7:
                closes.append(fakes.Outcome(stream.close()))
            else:
                assume(_answer(p, t, st, True))
            for o in closes:
                if o.fired > 1:
                    return R('close-fired-twice')
                if not gone and o.fired:
                    return R('close-completed-before-Tor-reported-the-stream-gone')
        while _answer(p, t, st, True):
            pass
        if gone:
            for i, o in enumerate(closes):
                if o.fired != 1:
                    return R('close-never-completed-although-stream-gone', 'request #%d of %d, ops %r', i, len(closes), ops)
    except Exception as e:
        return R('exception', '%s: %s', type(e).__name__, e)
    reached()
    return ''


def _ops(vals, admissible):
    return [api.pick_from(v, admissible) for v in vals]


_CW = (0, 1, 2, 3, 4, 5, 6, 7, 8, 9)


@cond(quick=dict(parts=[{'o2': a} for a in _CW[1:]], budget=150))
def c08_circuit_waits(o2: int, o3: int, o4: int, o5: int, o6: int) -> str:
    """LAUNCHED, then 5 operations from {EXTENDED, BUILT, CLOSED, FAILED, when_built, when_closed, close, close(IfUnused), ack}"""
    ops = [0, o2] + _ops([o3, o4, o5, o6], _CW[1:])
    with api.no_tracing():       # every choice is concrete by now
        return _circuit_waits(ops)


_SW = (1, 2, 3, 4, 5, 7, 8)


@cond(quick=dict(parts=[{'o2': a} for a in _SW], budget=100))
def c08_stream_waits(o2: int, o3: int, o4: int, o5: int, o6: int) -> str:
    """NEW, then 5 operations from {SENTCONNECT, SUCCEEDED, CLOSED, FAILED, DETACHED, close, ack}"""
    ops = [0, o2] + _ops([o3, o4, o5, o6], _SW)
    with api.no_tracing():
        return _stream_waits(ops)
