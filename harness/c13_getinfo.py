"""C13 -- GETINFO/GETCONF results map each key to exactly the value Tor sent.

Real code: get_info/get_info_single/get_conf/get_conf_single -> queue_command; the reply lines
go through the real lineReceived/FSM/_accumulate_*/_broadcast_response and parse_keywords/unquote.
Symbolic: the value strings.  Oracle: the reference *encoder* (control-spec reply format,
dot-stuffing) builds Tor's reply from the values; the result must give the values back.
"""
from vlib import prelude
from vlib.api import cond, assume, reached, R, known
from vlib import fakes

prelude.install()
from txtorcon.torcontrolprotocol import DEFAULT_VALUE  # noqa: E402

PROPERTY = 'C13'
ASSUMPTIONS = [
    'reply lines are delivered whole through the real lineReceived (segmentation is C01\'s subject)',
    'values: printable ASCII 0x20..0x7e; reply rendered per control-spec 3.9/3.3 (250-k=v / 250+k= data . / 250 OK), data lines dot-stuffed',
    'three-valued: the conventional leading newline of a multi-line value is ignored',
]
BOUNDS = {'quick': {'getinfo': '1 key len<=3, 2 keys len<=2', 'multiline': '<=2 lines of len<=3', 'getconf': '<=2 values len<=2'},
          'thorough': {'getinfo': '1 key len<=4, 2 keys len<=3', 'multiline': '<=2 lines len<=3, 3 lines len<=2', 'getconf': '<=3 values len<=3'}}
OUTSIDE = ['values longer than 4 characters', 'non-ASCII', 'more than 2 keys / 3 values', 'data lines that begin with the requested key followed by = (needs a line longer than the bound)', 'regions of the listed known findings (re-checked by their witnesses)']

K1 = 'net/listeners/socks'
K2 = 'version'


def _printable(s):
    for c in s:
        assume(32 <= ord(c) <= 126)


def _quote_wrapped(v):
    return len(v) >= 1 and v[0] == v[-1] and (v[0] == '"' or v[0] == "'")


def _carve_values(*vals):
    """known finding C13-quote-wrapped: region carved out of the exhaustive claim while listed"""
    if known('C13-quote-wrapped'):
        for v in vals:
            assume(not _quote_wrapped(v))


def _feed(p, lines):
    for ln in lines:
        p.lineReceived(ln.encode('ascii'))


def _sent(t):
    return b''.join(t.chunks).decode('ascii')


@cond(quick=dict(parts=[{'n': i} for i in range(4)], budget=100),
      thorough=dict(parts=[{'n': i} for i in range(5)], budget=900))
def c13_getinfo_one(v: str, n: int, single: bool, ev: bool) -> str:
    """one requested key, one single-line value; ev: a data-block asynchronous event arrives just before the reply"""
    assume(len(v) == n)
    _printable(v)
    _carve_values(v)
    p, t = fakes.new_protocol()
    try:
        d = p.get_info_single(K1) if single else p.get_info(K1)
        o = fakes.Outcome(d)
        if _sent(t) != 'GETINFO ' + K1 + '\r\n':
            return 'wrong-command'
        if ev:
            _feed(p, ['650+NS', 'r relay AAAA BBBB 2024-01-01 00:00:00 10.0.0.1 9001 0', 's Fast Running', '.', '650 OK'])
        _feed(p, ['250-' + K1 + '=' + v, '250 OK'])
    except Exception as e:
        return R('exception', '%s: %s', type(e).__name__, e)
    if o.fired != 1 or o.ok != 1:
        return R('getinfo-did-not-succeed-once', '%r', o.exc())
    got = o.value if single else (o.value.get(K1) if isinstance(o.value, dict) and len(o.value) == 1 else None)
    if got != v:
        return R('value-differs', 'tor sent %r, result %r', v, o.value)
    reached()
    return ''


@cond(quick=dict(parts=[{'n1': a, 'n2': b} for a in range(3) for b in range(3)], budget=100),
      thorough=dict(parts=[{'n1': a, 'n2': b} for a in range(4) for b in range(4)], budget=900))
def c13_getinfo_two(v1: str, v2: str, n1: int, n2: int) -> str:
    """two requested keys"""
    assume(len(v1) == n1 and len(v2) == n2)
    _printable(v1)
    _printable(v2)
    _carve_values(v1, v2)
    p, t = fakes.new_protocol()
    try:
        o = fakes.Outcome(p.get_info(K1, K2))
        if _sent(t) != 'GETINFO ' + K1 + ' ' + K2 + '\r\n':
            return 'wrong-command'
        _feed(p, ['250-' + K1 + '=' + v1, '250-' + K2 + '=' + v2, '250 OK'])
    except Exception as e:
        return R('exception', '%s: %s', type(e).__name__, e)
    if o.fired != 1 or o.ok != 1:
        return R('getinfo-did-not-succeed-once', '%r', o.exc())
    if not isinstance(o.value, dict) or len(o.value) != 2 or o.value.get(K1) != v1 or o.value.get(K2) != v2:
        return R('value-differs', 'tor sent %r %r, result %r', v1, v2, o.value)
    reached()
    return ''


def _stuff(line):
    return '.' + line if line.startswith('.') else line


def _lines_of(value):
    """the lines of a multi-line value, ignoring the conventional leading newline"""
    if value.startswith('\n'):
        value = value[1:]
    return value.split('\n')


_ML_Q = [{'nl': 1, 'a': a, 'b': 0, 'c': 0} for a in range(4)] + [{'nl': 2, 'a': a, 'b': b, 'c': 0} for a in range(3) for b in range(3)]
_ML_Q2 = [{'nl': 2, 'a': a, 'b': b, 'c': 0} for a in range(4) for b in range(4) if a == 3 or b == 3]
_ML_T = _ML_Q + _ML_Q2 + [{'nl': 3, 'a': a, 'b': b, 'c': c} for a in range(3) for b in range(3) for c in range(3)]


@cond(quick=dict(parts=_ML_Q, budget=100), thorough=dict(parts=_ML_T, budget=1500))
def c13_multiline(l1: str, l2: str, l3: str, nl: int, a: int, b: int, c: int, single: bool) -> str:
    """one requested key whose value is a data block of nl lines (through get_info and get_info_single)"""
    assume(len(l1) == a and len(l2) == b and len(l3) == c)
    _printable(l1)
    _printable(l2)
    _printable(l3)
    lines = [l1, l2, l3][:nl]
    if known('C13-ok-data-line'):
        for x in lines:
            assume(x.strip() != 'OK')
    p, t = fakes.new_protocol()
    try:
        o = fakes.Outcome(p.get_info_single(K1) if single else p.get_info(K1))
        _feed(p, ['250+' + K1 + '='] + [_stuff(x) for x in lines] + ['.', '250 OK'])
    except Exception as e:
        return R('exception', '%s: %s', type(e).__name__, e)
    if o.fired != 1 or o.ok != 1:
        return R('getinfo-did-not-succeed-once', '%r fired=%d', o.exc(), o.fired)
    if single:
        val = o.value
    else:
        val = o.value.get(K1) if isinstance(o.value, dict) and len(o.value) == 1 else None
    if not isinstance(val, str) or _lines_of(val) != lines:
        return R('multiline-value-differs', 'tor sent %r, result %r', lines, o.value)
    reached()
    return ''


_GC_Q = [{'form': 0, 'nv': 0, 'a': 0, 'b': 0, 'c': 0}, {'form': 1, 'nv': 0, 'a': 0, 'b': 0, 'c': 0}] + \
        [{'form': 2, 'nv': 1, 'a': a, 'b': 0, 'c': 0} for a in range(1, 4)] + \
        [{'form': 2, 'nv': 2, 'a': a, 'b': b, 'c': 0} for a in range(3) for b in range(3)]
_GC_T = _GC_Q + [{'form': 2, 'nv': 3, 'a': a, 'b': b, 'c': c} for a in range(3) for b in range(3) for c in range(3)]


@cond(quick=dict(parts=_GC_Q, budget=100), thorough=dict(parts=_GC_T, budget=600))
def c13_getconf(v1: str, v2: str, v3: str, form: int, nv: int, a: int, b: int, c: int, single: bool, othercase: bool, ev: bool) -> str:
    """GETCONF of one option: unset / empty / one value / repeated; ev: a multi-line asynchronous event arrives just before the reply"""
    assume(len(v1) == a and len(v2) == b and len(v3) == c)
    _printable(v1)
    _printable(v2)
    _printable(v3)
    asked = 'SOCKSPORT' if othercase else 'SocksPort'
    name = 'SocksPort'
    vals = [v1, v2, v3][:nv]
    _carve_values(*vals)
    if form == 0:
        reply = ['250 ' + name]
        want = DEFAULT_VALUE
    elif form == 1:
        reply = ['250 ' + name + '=']
        want = ''
    else:
        reply = ['250-' + name + '=' + v for v in vals[:-1]] + ['250 ' + name + '=' + vals[-1]]
        want = vals[0] if nv == 1 else vals
    p, t = fakes.new_protocol()
    try:
        o = fakes.Outcome(p.get_conf_single(asked) if single else p.get_conf(asked))
        if _sent(t) != 'GETCONF ' + asked + '\r\n':
            return 'wrong-command'
        if ev:
            _feed(p, ['650-CONF_CHANGED', '650-ExitNodes=zz', '650 OK'])
        _feed(p, reply)
    except Exception as e:
        return R('exception', '%s: %s', type(e).__name__, e)
    if o.fired != 1 or o.ok != 1:
        return R('getconf-did-not-succeed-once', '%r', o.exc())
    if single:
        got = o.value
    else:
        got = o.value.get(name) if isinstance(o.value, dict) and len(o.value) == 1 else None
    if got != want:
        return R('getconf-value-differs', 'tor sent %r, want %r, result %r', reply, want, o.value)
    if form == 0 and got == '':
        return 'unset-indistinguishable-from-empty'
    reached()
    return ''
