"""C07 -- live state lists exactly Tor's circuits and streams, attachments consistent.

Real code: TorState._circuit_status/_stream_status/_circuit_update/_stream_update/
_maybe_create_circuit/circuit_*/stream_*, Circuit.update/update_path, Stream.update,
router_from_id.  Symbolic: the history -- which event Tor emits next (bounded ints; the engine
explores every order the Tor-side reference model admits) -- and the starting snapshot.
"""
from vlib import prelude
from vlib.api import cond, assume, reached, R
from vlib import api, fakes
from vlib.ref_tor import TorModel, CONSENSUS, RA, RB, NC, NS

prelude.install()
from txtorcon.torstate import TorState  # noqa: E402

PROPERTY = 'C07'
ASSUMPTIONS = [
    'real TorState(protocol, bootstrap=False) over a real TorControlProtocol with a list transport; events enter through '
    '_circuit_update/_stream_update, snapshots through _circuit_status/_stream_status (the line machine is C01/C02)',
    'Tor-side reference model vlib/ref_tor.py (control-spec 4.1.1/4.1.2): LAUNCHED first, SENTCONNECT only on a live BUILT circuit, '
    're-attachment only after DETACHED, nothing after CLOSED/FAILED until the id is re-used, circuits may close under attached streams',
    'a two-relay consensus is installed through the real _update_network_status; a third relay is absent from it',
    '"latest target": host:port of the first NEW event, target_addr of the latest REMAP',
]
BOUNDS = {'quick': {'circuits': 2, 'streams': 2, 'events': '4 from the empty state, 2 after each of 5 snapshots', 'alphabet': '34 (incl. EXTENDED on an already BUILT circuit)'},
          'thorough': {'events': '5 from the empty state, 4 after each snapshot'}}
OUTSIDE = ['more than 2 circuits / 2 streams', 'exceptions raised by user listeners', 'NEWRESOLVE / SENTRESOLVE streams']


def new_state(wire=False):
    """wire=True: the state subscribes through its real _add_events() (SETEVENTS acknowledged by the harness) and
    events are then delivered as 650 lines through the real protocol"""
    with api.no_tracing():
        p, t = fakes.new_protocol()
        st = TorState(p, bootstrap=False)
        st._update_network_status(CONSENSUS)
        if wire:
            p._set_valid_events('STREAM CIRC NEWCONSENSUS ADDRMAP HS_DESC')
            st._add_events()
            for _ in range(8):
                lines = b''.join(t.chunks).split(b'\r\n')[:-1]
                if len(lines) <= getattr(p, '_harness_acked', 0):
                    break
                p._harness_acked = getattr(p, '_harness_acked', 0) + 1
                p.lineReceived(b'250 OK')
            st._wire = p
    return st, p, t


class Tracker(object):
    """remembers every Circuit object the state ever exposed, with its (id, generation)"""

    def __init__(self):
        self.objs = []     # (cid, gen, obj)

    def see(self, state, model):
        for cid, obj in state.circuits.items():
            if not any(o is obj for (_c, _g, o) in self.objs):
                gen = model.circ[cid]['gen'] if cid in model.circ else -1
                self.objs.append((cid, gen, obj))


def compare(state, model, tracker, step):
    """'' or reason: the live view against the Tor-side model"""
    if sorted(state.circuits.keys()) != sorted(model.circ.keys()):
        return R('circuit-set-differs', 'step %s: view %r tor %r', step, sorted(state.circuits), sorted(model.circ))
    for cid, c in model.circ.items():
        v = state.circuits[cid]
        if v.id != cid or v.state != c['status']:
            return R('circuit-status-differs', 'step %s circuit %d: view %s tor %s', step, cid, v.state, c['status'])
        if v.purpose != c['purpose']:
            return R('circuit-purpose-differs', 'step %s circuit %d: %r', step, cid, v.purpose)
        if [r.id_hex for r in v.path] != c['path']:
            return R('circuit-path-differs', 'step %s circuit %d: view %r tor %r', step, cid, [r.id_hex for r in v.path], c['path'])
        for r in v.path:
            known = state.routers_by_hash.get(r.id_hex)
            if known is not None and known is not r:
                return R('circuit-hop-is-not-the-consensus-relay-object', 'step %s circuit %d hop %s', step, cid, r.id_hex)
            if known is None and r.id_hex in (RA, RB):
                return R('consensus-relay-lost', 'step %s: %s', step, r.id_hex)
        if dict(v.flags) != c['flags']:
            return R('circuit-flags-differ', 'step %s circuit %d: view %r tor %r', step, cid, v.flags, c['flags'])
    if sorted(state.streams.keys()) != sorted(model.stream.keys()):
        return R('stream-set-differs', 'step %s: view %r tor %r', step, sorted(state.streams), sorted(model.stream))
    tracker.see(state, model)
    for sid, s in model.stream.items():
        v = state.streams[sid]
        if v.id != sid or v.state != s['status']:
            return R('stream-status-differs', 'step %s stream %d: view %s tor %s', step, sid, v.state, s['status'])
        if s.get('target_known', True):
            if '%s:%d' % (v.target_host, v.target_port) != s['target']:
                return R('stream-target-differs', 'step %s stream %d: view %s:%s tor %s', step, sid, v.target_host, v.target_port, s['target'])
        if s['addr'] is not None and str(v.target_addr) != s['addr']:
            return R('stream-remap-address-differs', 'step %s stream %d: view %s tor %s', step, sid, v.target_addr, s['addr'])
        if s.get('source') and (str(v.source_addr), v.source_port) != s['source']:
            return R('stream-source-differs', 'step %s stream %d: view %s:%s', step, sid, v.source_addr, v.source_port)
        # attachment, both directions
        if s['on'] is None:
            if v.circuit is not None:
                return R('stream-attached-in-view-but-not-in-tor', 'step %s stream %d on %r', step, sid, v.circuit.id)
        else:
            cid, gen = s['on']
            if v.circuit is None or v.circuit.id != cid:
                return R('stream-not-on-its-circuit', 'step %s stream %d: tor says circuit %d, view %r', step, sid, cid,
                         v.circuit.id if v.circuit else None)
        for (ocid, ogen, obj) in tracker.objs:
            n = sum(1 for x in obj.streams if x is v)
            want = 1 if (s['on'] is not None and s['on'] == (ocid, ogen)) else 0
            if n != want:
                return R('circuit-stream-list-inconsistent', 'step %s: stream %d appears %d time(s) under circuit %d (generation %d), want %d',
                         step, sid, n, ocid, ogen, want)
    # no dead stream object lingers under any circuit
    live = [state.streams[sid] for sid in model.stream]
    for (ocid, ogen, obj) in tracker.objs:
        for x in obj.streams:
            if not any(x is l for l in live):
                return R('closed-stream-still-listed-under-circuit', 'step %s: circuit %d lists stream %r', step, ocid, x.id)
    return ''


def deliver(state, kind, payload):
    w = getattr(state, '_wire', None)
    if w is not None:
        w.lineReceived(('650 %s %s' % (kind, payload)).encode('ascii'))
        return
    if kind == 'CIRC':
        state._circuit_update(payload)
    else:
        state._stream_update(payload)


def run_history(prefix, events, wire=False):
    """prefix: concrete event numbers that build the snapshot inside the model; events: symbolic"""
    state, p, t = new_state(wire)
    model = TorModel()
    tracker = Tracker()
    try:
        with api.no_tracing():
            for e in prefix:
                assert model.enabled(e), prefix
                model.apply(e)
            if prefix:
                ctext, stext = model.snapshot_texts()
                for s in model.stream.values():
                    # a snapshot does not carry the original target / source of an established stream
                    # (three-valued) only NEW / SUCCEEDED entries are required to yield a target
                    s['target_known'] = s['status'] in ('NEW', 'SUCCEEDED')
                    if s['status'] == 'SUCCEEDED':
                        s['target'] = '10.0.0.%d:80' % [k for k, v in model.stream.items() if v is s][0]
                    s['addr'] = None
                    s['source'] = None
                state._circuit_status(ctext)
                state._stream_status(stext)
                for c in model.circ.values():
                    pass
        r = compare(state, model, tracker, 'snapshot')
        if r:
            return r
        n = model.nevents()
        i = 0
        for ev in events:
            e = api.pick(ev, 0, n - 1)
            assume(model.enabled(e))
            kind, payload = model.apply(e)
            deliver(state, kind, payload)
            r = compare(state, model, tracker, i)
            if r:
                return r
            i += 1
    except Exception as e:
        return R('exception', '%s: %s', type(e).__name__, e)
    reached()
    return ''


# snapshots, as event prefixes of the model (0..11 circuit events, 12.. stream events)
def _c(cid, ev):
    return (cid - 1) * NC + ev


def _s(sid, ev):
    return 2 * NC + (sid - 1) * NS + ev


SNAPSHOTS = [
    [],
    [_c(1, 0), _c(1, 1), _c(1, 3)],                                          # circuit 1 BUILT
    [_c(1, 0), _c(1, 1), _c(1, 3), _s(1, 0), _s(1, 1), _s(1, 4)],           # + stream 1 SUCCEEDED on it
    [_c(1, 0), _c(1, 1), _c(1, 3), _c(2, 0), _s(1, 0)],                     # BUILT + LAUNCHED + unattached NEW stream
    [_c(1, 0), _c(1, 1), _c(1, 3), _c(2, 0), _c(2, 1), _c(2, 2), _c(2, 3), _s(1, 0), _s(1, 1), _s(2, 0), _s(2, 2)],   # two of each, attached
    [_c(1, 0), _c(1, 1), _c(1, 3), _s(1, 0), _s(1, 1), _s(1, 5)],           # detached stream
]
_E = 34


@cond(quick=dict(parts=[{'e1': a} for a in range(_E)], budget=100))
def c07_empty4(e1: int, e2: int, e3: int, e4: int) -> str:
    """4 events from the empty state (first event pinned per partition)"""
    return run_history([], [e1, e2, e3, e4])


@cond(thorough=dict(parts=[{'e1': a, 'e2': b} for a in range(_E) for b in range(_E)], budget=300))
def c07_empty5(e1: int, e2: int, e3: int, e4: int, e5: int) -> str:
    """5 events from the empty state"""
    return run_history([], [e1, e2, e3, e4, e5])


@cond(quick=dict(parts=[{'snap': i} for i in range(1, len(SNAPSHOTS))], budget=100))
def c07_snapshot2(snap: int, e1: int, e2: int, wire: bool) -> str:
    """2 events after a snapshot installed through _circuit_status/_stream_status; wire: events arrive as 650 lines through
    the real protocol and the subscriptions made by the real _add_events()"""
    return run_history(SNAPSHOTS[snap], [e1, e2], True if wire else False)


@cond(thorough=dict(parts=[{'snap': i, 'e1': a} for i in range(1, len(SNAPSHOTS)) for a in range(_E)], budget=300))
def c07_snapshot4(snap: int, e1: int, e2: int, e3: int, e4: int) -> str:
    """4 events after a snapshot"""
    return run_history(SNAPSHOTS[snap], [e1, e2, e3, e4])
