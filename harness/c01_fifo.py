"""C01 -- control replies resolve commands FIFO, exactly once, one command in flight.

Real code: TorControlProtocol.queue_command/_maybe_issue_command/lineReceived/dataReceived, the
spaghetti FSM with its matchers and handlers (_is_*, _start_command, _accumulate_*,
_broadcast_response).  Symbolic: reply text fragments (so data lines may look like status
lines), per-command plain/callback flag, the submission points relative to arriving lines,
the cut points of the byte stream.  Oracle: vlib.ref_control (control-spec reply model).
"""
from vlib import prelude
from vlib.api import cond, assume, reached, R
from vlib import api, fakes
from vlib import ref_control as rc

prelude.install()
from txtorcon.torcontrolprotocol import TorProtocolError  # noqa: E402

PROPERTY = 'C01'
ASSUMPTIONS = [
    'protocol object real; transport = list-recording double assigned directly (authentication is C04)',
    'Tor-side model: the n-th reply is sent only after the n-th command has been written',
    'c01_session delivers whole lines through the real lineReceived; c01_segment delivers bytes through the real dataReceived (LineOnlyReceiver framing)',
    'three-valued: a sole "250 OK" may yield "" or "OK"; a per-line callback may or may not also see the final status line; text of a multi-line 5xx must contain the final line text',
]
BOUNDS = {'quick': {'commands': 2, 'reply_shapes': 8, 'schedules': 'concrete reply texts, symbolic submission point and plain/callback flags', 'text': 'one command; fragments x,y of 1..2 and data line of 0..3 symbolic printable characters', 'segment_cuts': 2},
          'thorough': {'commands': 3}}
OUTSIDE = ['the 1 MiB MAX_LENGTH line (only asserted >= 2**20)', 'more than 3 queued commands in c01_session', 'ill-formed server streams',
           'reply text fragments longer than 3 characters']


def _printable(s):
    for c in s:
        assume(32 <= ord(c) <= 126)


class Cmd(object):
    def __init__(self, idx, use_cb):
        self.text = 'GETINFO cmd%d' % idx
        self.use_cb = use_cb
        self.lines = []
        self.out = None

    def cb(self, line):
        self.lines.append(line)
        # a callback may return anything; what it returns is nobody's business (0 on the first line, then 1, 2, ...: a falsy
        # non-None value and truthy ones)
        return len(self.lines) - 1


def _expect(cmd, shape, x, y, d, cd='50'):
    """'' or reason: outcome of a completed command against the reference"""
    _w, code, texts, final = rc.render(shape, x, y, d, cd)
    o = cmd.out
    if o.fired != 1:
        return R('completed-command-fired-%d-times' % o.fired)
    if 200 <= code < 300:
        if o.ok != 1:
            return R('2xx-reply-did-not-succeed', '%r', o.exc())
        if cmd.use_cb:
            if not rc.callback_lines_ok(cmd.lines, texts, final):
                return R('callback-lines-wrong', 'want %r (+final %r) got %r', texts, final, cmd.lines)
        else:
            if o.value not in rc.success_texts(texts, final):
                return R('reply-text-wrong', 'want one of %r got %r', rc.success_texts(texts, final), o.value)
    else:
        if o.err != 1:
            return R('5xx-reply-did-not-fail')
        e = o.exc()
        if not isinstance(e, TorProtocolError):
            return R('5xx-error-is-not-TorProtocolError', '%r', e)
        if e.code != code:
            return R('error-code-wrong', 'want %d got %r', code, e.code)
        if final not in e.text:       # with or without a per-line callback the error carries the status text
            return R('error-text-wrong', 'want %r in %r', final, e.text)
    return ''


def _session(n, shapes, cbs, ts, x, y, d, cd='50'):
    p, t = fakes.new_protocol()
    cmds = [Cmd(i, cbs[i]) for i in range(n)]
    wires = [rc.render(shapes[i], x, y, d, cd)[0] for i in range(n)]
    submitted = 0
    completed = 0          # replies fully delivered
    total = sum(len(w) for w in wires)
    # flat list of (reply index, line, is_last_of_reply)
    flat = []
    for i in range(n):
        for k, ln in enumerate(wires[i]):
            flat.append((i, ln, k == len(wires[i]) - 1))

    def submit():
        c = cmds[submitted]
        c.out = fakes.Outcome(p.queue_command(c.text, c.cb if c.use_cb else None))

    def monitor(step):
        w = min(submitted, completed + 1)
        want = b''.join(c.text.encode('ascii') + b'\r\n' for c in cmds[:w])
        got = b''.join(t.chunks)
        if got != want:
            return R('wire-commands-wrong', 'step %s: want %r got %r', step, want, got)
        for i in range(submitted):
            if i < completed:
                r = _expect(cmds[i], shapes[i], x, y, d, cd)
                if r:
                    return r
            else:
                if cmds[i].out.fired:
                    return R('command-resolved-before-its-reply', 'step %s cmd %d completed %d', step, i, completed)
                if i > completed and cmds[i].lines:
                    return R('callback-of-queued-command-called')
        return ''

    try:
        submit()
        submitted = 1
        r = monitor('start')
        if r:
            return r
        for j in range(total):
            # submissions scheduled before line j
            for m in range(1, n):
                if submitted == m and ts[m - 1] == j:
                    submit()
                    submitted += 1
                    r = monitor('submit@%d' % j)
                    if r:
                        return r
            ri, line, last = flat[j]
            if ri >= submitted:
                # Tor cannot answer a command it has not received: submit now (forced)
                while submitted <= ri:
                    submit()
                    submitted += 1
            p.lineReceived(line.encode('ascii'))
            if last:
                completed = ri + 1
            r = monitor('line@%d' % j)
            if r:
                return r
        while submitted < n:
            submit()
            submitted += 1
    except Exception as e:
        return R('exception', '%s: %s', type(e).__name__, e)
    if completed != n:
        return 'harness: not all replies delivered'
    reached()
    return ''


_S2 = [{'s1': a, 's2': b} for a in rc.SHAPES for b in rc.SHAPES]
_S3 = [{'s1': a, 's2': b, 's3': c} for a in rc.SHAPES for b in rc.SHAPES for c in rc.SHAPES]
X, Y, D = 'xx', 'y z', '.5'      # concrete fragments for the schedule conditions (D is dot-stuffed on the wire)


@cond(quick=dict(parts=_S2, budget=100))
def c01_session2(cb1: bool, cb2: bool, t1: int, s1: int, s2: int) -> str:
    """2 commands (plain/callback symbolic), replies of shapes s1,s2, second command submitted before line t1 (symbolic)"""
    assume(0 <= t1 <= rc.nlines(s1))
    return _session(2, [s1, s2], [cb1, cb2], [t1], X, Y, D)


@cond(thorough=dict(parts=_S3, budget=600))
def c01_session3(cb1: bool, cb2: bool, cb3: bool, t1: int, t2: int, s1: int, s2: int, s3: int) -> str:
    """3 commands"""
    assume(0 <= t1 <= t2 <= rc.nlines(s1) + rc.nlines(s2))
    assume(t1 <= rc.nlines(s1))
    return _session(3, [s1, s2, s3], [cb1, cb2, cb3], [t1, t2], X, Y, D)


_DEPTH = [{'s1': a, 's2': b, 's3': c, 's4': e} for (a, b, c, e) in
          [(1, 3, 2, 0), (0, 0, 0, 0), (5, 2, 4, 1), (7, 1, 6, 3), (2, 7, 0, 5), (4, 6, 3, 2), (10, 1, 10, 0)]]


@cond(quick=dict(parts=_DEPTH, budget=100))
def c01_depth4(t1: int, t2: int, t3: int, cb: bool, s1: int, s2: int, s3: int, s4: int) -> str:
    """4 commands (queue depth up to 3), six fixed shape tuples, symbolic submission points"""
    n12 = rc.nlines(s1) + rc.nlines(s2)
    assume(0 <= t1 <= t2 <= t3 <= n12 + rc.nlines(s3))
    assume(t1 <= rc.nlines(s1) and t2 <= n12)
    return _session(4, [s1, s2, s3, s4], [False, cb, False, cb], [t1, t2, t3], X, Y, D)


@cond(quick=dict(parts=[{'sh': 8}, {'sh': 9}], budget=100))
def c01_codes(cd: str, x: str, cb: bool, sh: int) -> str:
    """single-line reply with every status code 200..299 / 500..599 (two symbolic digits)"""
    assume(len(cd) == 2 and len(x) == 1)
    assume(48 <= ord(cd[0]) <= 57 and 48 <= ord(cd[1]) <= 57)
    _printable(x)
    return _session(1, [sh], [cb], [], x, 'y', '', cd)


def _text_parts(maxd):
    out = []
    for sh in rc.SHAPES:
        uses_x = sh in (1, 2, 3, 4, 6, 7, 10)
        uses_y = sh in (4, 7)
        uses_d = sh in (5, 6, 10)
        for lx in (((1, 2, 3) if sh == 1 else (1, 2)) if uses_x else (1,)):
            for ly in ((1, 2) if uses_y else (1,)):
                for ld in (range(maxd + 1) if uses_d else (0,)):
                    out.append({'sh': sh, 'lx': lx, 'ly': ly, 'ld': ld})
    return out


@cond(quick=dict(parts=_text_parts(3), budget=100), thorough=dict(parts=_text_parts(4), budget=600))
def c01_text(x: str, y: str, d: str, cb: bool, sh: int, lx: int, ly: int, ld: int) -> str:
    """one command, one reply of shape sh whose text fragments are symbolic strings of the pinned lengths:
    every short line (incl. data lines that look like status lines, '.', '..', ' .') is classified"""
    assume(len(x) == lx and len(y) == ly and len(d) == ld)
    _printable(x)
    _printable(y)
    _printable(d)
    if sh == 1 or sh == 4:
        assume(x != 'OK' and y != 'OK')
    return _session(1, [sh], [cb], [], x, y, d)


def _segmented(sh, cb, cuts):
    p, t = fakes.new_protocol()
    c = Cmd(0, cb)
    wire = rc.render(sh, X, Y, D)[0]
    stream = b''.join(ln.encode('ascii') + b'\r\n' for ln in wire)
    for q in cuts:
        assume(0 <= q <= len(stream))
    # the offsets are realised here (exhaustive fan-out over the finite set of cut tuples); nothing
    # downstream is symbolic any more, so the delivery itself runs natively
    cuts = [api.pick(q, 0, len(stream)) for q in cuts]
    cb = True if cb else False
    bounds = [0] + list(cuts) + [len(stream)]
    try:
      with api.no_tracing():
        c.out = fakes.Outcome(p.queue_command(c.text, c.cb if cb else None))
        for i in range(len(bounds) - 1):
            chunk = stream[bounds[i]:bounds[i + 1]]
            if len(chunk):
                p.dataReceived(chunk)
            if bounds[i + 1] < len(stream) and c.out.fired:
                return R('command-resolved-before-the-end-of-its-reply', 'after %d of %d bytes', bounds[i + 1], len(stream))
    except Exception as e:
        return R('exception', '%s: %s', type(e).__name__, e)
    with api.no_tracing():
        r = _expect(c, sh, X, Y, D)
    if r:
        return r
    if b''.join(t.chunks) != c.text.encode('ascii') + b'\r\n':
        return R('wire-commands-wrong')
    reached()
    return ''


@cond(quick=dict(parts=[{'sh': s} for s in rc.SHAPES], budget=200))
def c01_segment2(c1: int, c2: int, cb: bool, sh: int) -> str:
    """the reply's byte stream cut at two offsets, delivered through the real dataReceived"""
    assume(0 <= c1 <= c2)
    return _segmented(sh, cb, [c1, c2])


@cond(thorough=dict(parts=[{'sh': s, 'cb': b} for s in rc.SHAPES for b in (False, True)], budget=1200))
def c01_segment3(c1: int, c2: int, c3: int, cb: bool, sh: int) -> str:
    """three cut points"""
    assume(0 <= c1 <= c2 <= c3)
    return _segmented(sh, cb, [c1, c2, c3])


@cond(quick=dict(parts=[{'sh': s} for s in rc.SHAPES], budget=120))
def c01_bytewise(cb: bool, sh: int) -> str:
    """every byte delivered separately"""
    wire = rc.render(sh, X, Y, D)[0]
    n = sum(len(ln) + 2 for ln in wire)
    return _segmented(sh, cb, list(range(1, n)))
