"""C19 -- launch fires at most once; success only after full bootstrap; tempdir removed.

Real code: controller.TorProcessProtocol (outReceived/errReceived/_tor_connected/_tor_connection_failed/
_status_client/_timeout_expired/processEnded/cleanup/when_connected/_maybe_notify_connected) and launch() for the
temporary-directory clauses.  Symbolic: the order of {stdout chunks incl. the control-listener line (whole or
split), stderr output, control connect success / failure, post_bootstrap, acknowledgement / rejection of the
ownership commands, bootstrap progress 50 / 100, timeout, process exit} -- every causally possible sequence up
to the bound, enumerated from the causality relation and selected by a solver-chosen index.
"""
from zope.interface import implementer
from vlib import prelude
from vlib.api import cond, assume, reached, R
from vlib import api, fakes

prelude.install()
from twisted.internet import defer, error, task  # noqa: E402
from twisted.internet.interfaces import IReactorCore, IReactorTime  # noqa: E402
from twisted.python.failure import Failure  # noqa: E402
import txtorcon.controller as controller  # noqa: E402
from txtorcon.controller import TorProcessProtocol  # noqa: E402

PROPERTY = 'C19'
ASSUMPTIONS = [
    'process transport, clock (task.Clock), control connection (connection_creator Deferred) and control protocol (post_bootstrap, '
    'add_event_listener, queue_command with harness-controlled outcomes) are doubles; the real protocol is C01-C04\'s subject',
    'the fake control protocol delivers STATUS_CLIENT events like Event.got_update does (an exception raised by the listener is logged, not propagated)',
    'Tor emits STATUS_CLIENT events only after it acknowledged SETEVENTS',
    'launch(): tempfile.mkdtemp / delete_file_or_tree / available_tcp_port (names in txtorcon.controller) are doubles; reactor.spawnProcess records the process protocol',
]
BOUNDS = {'quick': {'sequence_length': '5 from the start, 4 after {listener line, connected, bootstrapped, SETEVENTS acknowledged}', 'alphabet': 13},
          'thorough': {'sequence_length': '6 from the start, 5 after the prefix'}}
OUTSIDE = ['real processes / sockets / file systems', 'sequences longer than the bound', 'liveness (a control-listener line split across chunks is never recognised: launch then only ends by timeout or exit)']

OUT_A, OUT_L, OUT_LS, ERR, CONN_OK, CONN_FAIL, BOOT, ACK, NACK, P50, P100, TIMEOUT, EXIT = range(13)
NAMES = ['OUT_A', 'OUT_L', 'OUT_LS', 'ERR', 'CONN_OK', 'CONN_FAIL', 'BOOT', 'ACK', 'NACK', 'P50', 'P100', 'TIMEOUT', 'EXIT']
LISTENER_LINE = b'Oct 03 12:00:00.000 [notice] Opening Control listener on /run/tor/control\n'


def _enabled(st):
    attempt, conn, boot, acks, nack, exited, timed = st
    out = []
    if not exited:
        out += [OUT_A, OUT_L, OUT_LS, ERR]
    if attempt and not conn:
        out += [CONN_OK, CONN_FAIL]
    if conn and not boot:
        out.append(BOOT)
    if boot and acks < 3:
        out += [ACK, NACK]
    if acks >= 1:
        out += [P50, P100]
    if not timed:
        out.append(TIMEOUT)
    if not exited:
        out.append(EXIT)
    return out


def _step(st, e):
    attempt, conn, boot, acks, nack, exited, timed = st
    if e == OUT_L and not attempt and not conn:
        attempt = True
    if e == CONN_OK:
        conn = True
    if e == CONN_FAIL:
        attempt = False
    if e == BOOT:
        boot = True
    if e == ACK:
        acks += 1
    if e == NACK:
        # the setup of this control connection has failed: TorProcessProtocol will try again at the next listener line
        nack = True
        attempt = conn = boot = False
        acks = 0
    if e == TIMEOUT:
        timed = True
    if e == EXIT:
        exited = True
    return (attempt, conn, boot, acks, nack, exited, timed)


def sequences(k, prefix=()):
    st = (False, False, False, 0, False, False, False)
    for e in prefix:
        st = _step(st, e)
    out = []

    def rec(s, seq):
        if len(seq) == k:
            out.append(list(prefix) + seq)
            return
        for e in _enabled(s):
            rec(_step(s, e), seq + [e])
    rec(st, [])
    return out


class FakeProcessTransport(object):
    pid = 4242

    def __init__(self):
        self.signals = []
        self.lost = 0
        self.exited = False

    def signalProcess(self, sig):
        if self.exited:
            raise error.ProcessExitedAlready()
        self.signals.append(sig)

    def loseConnection(self):
        self.lost += 1

    def closeStdin(self):
        pass


class FakeCtlTransport(object):
    """the control connection's transport (closing it is not a way to end the process)"""

    def __init__(self):
        self.lost = 0

    def loseConnection(self):
        self.lost += 1


class FakeControl(object):
    """the launched Tor's control connection as TorProcessProtocol sees it"""

    def __init__(self):
        self.post_bootstrap = defer.Deferred()
        self.cmds = []          # (text, Deferred)
        self.answered = 0
        self.listeners = []
        self.is_owned = None
        self.listener_errors = []
        self.transport = FakeCtlTransport()

    def add_event_listener(self, name, cb):
        self.listeners.append((name, cb))
        return self.queue_command('SETEVENTS ' + name)

    def queue_command(self, cmd, arg=None):
        d = defer.Deferred()
        self.cmds.append((cmd, d))
        return d

    def answer(self, ok):
        cmd, d = self.cmds[self.answered]
        self.answered += 1
        if ok:
            d.callback('OK')
        else:
            d.errback(RuntimeError('552 rejected ' + cmd))

    def event(self, text):
        for name, cb in list(self.listeners):
            try:
                cb(text)
            except Exception as e:      # Event.got_update logs and carries on
                self.listener_errors.append(e)


class FakeConfig(object):
    """a TorConfig that is not attached yet; attaching takes several round trips (never completes in the harness)"""
    protocol = None

    def __init__(self):
        self.attach_calls = 0

    def attach_protocol(self, proto):
        self.attach_calls += 1
        return defer.Deferred()


def _run(order, with_timeout, with_config=False):
    clock = task.Clock()
    ctl = FakeControl()
    ctls = []
    attempts = []

    def creator():
        d = defer.Deferred()
        attempts.append(d)
        return d
    pp = TorProcessProtocol(creator, None, FakeConfig() if with_config else None, clock if with_timeout else None, 30 if with_timeout else None, True, None, None)
    tr = FakeProcessTransport()
    pp.makeConnection(tr)
    first = fakes.Outcome(pp.when_connected())
    connected = False
    boot = False
    prog100 = False
    ended = False       # exit or timeout happened
    rejected = False
    takeown_written_at_success = None
    try:
        for i, e in enumerate(order):
            if e == OUT_A:
                # stdout chatter; at odd positions it is Tor's own "100%" line, which is not the control-port report the statement asks for
                if i % 2:
                    pp.outReceived(b'Oct 03 12:00:09.000 [notice] Bootstrapped 100%: Done\n')
                else:
                    pp.outReceived(b'Oct 03 12:00:00.000 [notice] Bootstrapped 0%: Starting\n')
            elif e == OUT_L:
                pp.outReceived(LISTENER_LINE)
            elif e == OUT_LS:
                pp.outReceived(LISTENER_LINE[:40])
                pp.outReceived(LISTENER_LINE[40:])
            elif e == ERR:
                try:
                    pp.errReceived(b'something on stderr\n')
                    return R('stderr-output-did-not-raise')
                except RuntimeError:
                    pass
                if tr.lost < 1:
                    return R('process-connection-not-dropped-on-stderr-output')
            elif e == CONN_OK or e == CONN_FAIL:
                pending = [d for d in attempts if not d.called]
                if len(pending) != 1:
                    return R('not-exactly-one-control-connection-attempt-outstanding', '%d (order %r)', len(pending), [NAMES[x] for x in order[:i + 1]])
                if e == CONN_OK:
                    connected = True
                    if ctls:
                        ctl = FakeControl()      # every control connection is a new protocol object
                        boot = False
                    ctls.append(ctl)
                    pending[0].callback(ctl)
                else:
                    pending[0].errback(Failure(error.ConnectionRefusedError('no')))
            elif e == BOOT:
                boot = True
                ctl.post_bootstrap.callback(ctl)
            elif e == ACK or e == NACK:
                if ctl.answered >= len(ctl.cmds):
                    return R('expected-ownership-command-not-written', 'answered %d written %r (order %r)', ctl.answered, [c for c, _d in ctl.cmds], [NAMES[x] for x in order[:i + 1]])
                ctl.answer(e == ACK)
                if e == NACK:
                    rejected = True
            elif e == P50 or e == P100:
                if e == P100:
                    prog100 = True
                ctl.event('NOTICE BOOTSTRAP PROGRESS=%d TAG=%s SUMMARY="%s"' % (50 if e == P50 else 100, 'loading' if e == P50 else 'done', 'Loading' if e == P50 else 'Done'))
            elif e == TIMEOUT:
                if with_timeout:
                    signals_before = len(tr.signals) + tr.lost
                    was_done = first.fired
                    clock.advance(31)
                    if not (prog100 and first.ok):
                        ended = True
                        if len(tr.signals) + tr.lost == signals_before and not was_done and not (first.ok and prog100):
                            return R('process-not-signalled-on-timeout')
                        if tr.signals and tr.signals[-1] != 'TERM' and not tr.exited:
                            return R('wrong-signal-on-timeout', '%r', tr.signals)
            else:
                tr.exited = True
                ended = True
                # the way the process ends varies with the position: exit status 1, or a clean exit (status 0, Twisted's ProcessDone)
                how = error.ProcessDone(0) if i % 2 else error.ProcessTerminated(1, None, None)
                pp.processExited(Failure(how))
                pp.processEnded(Failure(how))
            # ---- monitors after every step
            if first.fired > 1:
                return R('launch-result-fired-twice')
            if first.ok and takeown_written_at_success is None:
                # (judged at the moment of success)
                if not (connected and boot and prog100):
                    return R('launch-succeeded-before-full-bootstrap', 'order %r', [NAMES[x] for x in order[:i + 1]])
                if True:
                    # ... on the control connection that reported 100%
                    takeown_written_at_success = any(c == 'TAKEOWNERSHIP' for c, _d in ctl.cmds)
                    if not takeown_written_at_success:
                        return R('launch-succeeded-before-ownership-was-requested', 'connection #%d, order %r', len(ctls), [NAMES[x] for x in order[:i + 1]])
            if ended and first.fired != 1:
                return R('launch-result-not-failed-after-exit-or-timeout', 'order %r', [NAMES[x] for x in order[:i + 1]])
        # ownership: once everything was acknowledged the reset of __OwningControllerProcess must have been written
        if ctl.answered >= 2 and not any(c.startswith('RESETCONF __OwningControllerProcess') for c, _d in ctl.cmds):
            if not rejected:
                return R('owning-controller-process-not-reset-after-TAKEOWNERSHIP')
        # a request made after the outcome is known shares the outcome
        late = fakes.Outcome(pp.when_connected())
        if first.fired and late.fired:
            if first.err and late.ok:
                return R('late-request-succeeds-although-launch-failed', 'order %r', [NAMES[x] for x in order])
    except Exception as e:
        return R('exception', '%s: %s (order %r)', type(e).__name__, e, [NAMES[x] for x in order])
    reached()
    return ''


_NP = 16
PREFIX = (OUT_L, CONN_OK, BOOT, ACK)
_SEQ = {}


def _seqs(key):
    if key not in _SEQ:
        k, pre = key
        _SEQ[key] = sequences(k, PREFIX if pre else ())
    return _SEQ[key]


def _cond_body(k, pre, part, ia, ib, with_timeout, with_config=False):
    seqs = _seqs((k, pre))
    ch = (len(seqs) + _NP - 1) // _NP
    lo = part * ch
    hi = min(len(seqs), lo + ch) - 1
    assume(lo <= hi)
    # two-level index (keeps the comparison chains short): idx = lo + 40*ia + ib
    ia = api.pick(ia, 0, (hi - lo) // 40)
    ib = api.pick(ib, 0, 39)
    idx = lo + 40 * ia + ib
    assume(idx <= hi)
    with api.no_tracing():
        return _run(seqs[idx], True if with_timeout else False, True if with_config else False)


@cond(quick=dict(parts=[{'part': i, 'k': 5} for i in range(_NP)], budget=150), thorough=dict(parts=[{'part': i, 'k': 6} for i in range(_NP)], budget=1500))
def c19_from_start(ia: int, ib: int, with_timeout: bool, part: int, k: int) -> str:
    """every causally possible sequence of k process / control-connection events from process start"""
    return _cond_body(k, False, part, ia, ib, with_timeout)


@cond(quick=dict(parts=[{'part': i, 'k': 4} for i in range(_NP)], budget=150), thorough=dict(parts=[{'part': i, 'k': 5} for i in range(_NP)], budget=1500))
def c19_after_bootstrap(ia: int, ib: int, with_timeout: bool, with_config: bool, part: int, k: int) -> str:
    """every causally possible sequence of k events after {listener line, connected, bootstrapped, SETEVENTS acknowledged};
    with_config: a not-yet-attached TorConfig is passed, whose attach_protocol() stays outstanding"""
    return _cond_body(k, True, part, ia, ib, with_timeout, with_config)


PREFIX2 = (OUT_L, CONN_OK, BOOT, ACK, NACK, OUT_L, CONN_OK, BOOT)


@cond(quick=dict(budget=150))
def c19_second_connection(ia: int, ib: int, with_timeout: bool) -> str:
    """the first control connection's ownership request is rejected, a second listener line leads to a second connection:
    every causally possible sequence of 3 further events"""
    key = ('second', 3)
    if key not in _SEQ:
        _SEQ[key] = sequences(3, PREFIX2)
    seqs = _SEQ[key]
    ia = api.pick(ia, 0, (len(seqs) - 1) // 40)
    ib = api.pick(ib, 0, 39)
    idx = 40 * ia + ib
    assume(idx < len(seqs))
    with api.no_tracing():
        return _run(seqs[idx], True if with_timeout else False, False)


# ------------------------------------------------------------------ temporary directory (real launch())
@implementer(IReactorCore, IReactorTime)
class LaunchReactor(object):
    running = True

    def __init__(self):
        self.triggers = []
        self.spawned = []
        self.clock = task.Clock()

    def addSystemEventTrigger(self, phase, event, f, *a, **kw):
        self.triggers.append(f)
        return f

    def removeSystemEventTrigger(self, t):
        pass

    def spawnProcess(self, proto, executable, args=(), env=None, path=None, **kw):
        tr = FakeProcessTransport()
        self.spawned.append((proto, args))
        proto.makeConnection(tr)
        return tr

    def callLater(self, *a, **kw):
        return self.clock.callLater(*a, **kw)

    def seconds(self):
        return self.clock.seconds()

    def getDelayedCalls(self):
        return self.clock.getDelayedCalls()

    def callWhenRunning(self, f, *a, **kw):
        f(*a, **kw)

    def run(self):
        pass

    def stop(self):
        pass

    def crash(self):
        pass

    def iterate(self, delay=0):
        pass

    def fireSystemEvent(self, e):
        pass

    def resolve(self, *a, **kw):
        raise NotImplementedError


class _OsProxy(object):
    """the os module as txtorcon.controller sees it, with mkdir replaced (no real directory is created)"""

    def __init__(self, real, mkdir_ok):
        self._real = real
        self._mkdir_ok = mkdir_ok
        self.mkdirs = []

    def mkdir(self, path, mode=0o777):
        self.mkdirs.append(path)
        if not self._mkdir_ok:
            raise OSError(17, 'File exists')

    def __getattr__(self, k):
        return getattr(self._real, k)


def _tempdir(user_dir, exit_kind, fire_shutdown, mkdir_ok=False, timeout_first=False, cfg_dir=False):
    import os as _os
    deleted = []
    made = []
    controller.os = _OsProxy(_os, mkdir_ok)
    controller.delete_file_or_tree = lambda *paths: deleted.extend(paths)
    controller.tempfile = type('T', (), {'mkdtemp': staticmethod(lambda prefix='': made.append('/nonexistent/%s-made' % prefix) or made[-1])})
    controller.available_tcp_port = lambda reactor: defer.succeed(9999)
    reactor = LaunchReactor()
    ddir = '/nonexistent-parent/userdata' if user_dir else None
    extra = {}
    if cfg_dir:
        # the legacy way (launch_tor): a TorConfig that names the caller's own DataDirectory
        from txtorcon.torconfig import TorConfig
        tc = TorConfig()
        tc.DataDirectory = '/nonexistent-parent/cfgdata'
        extra['_tor_config'] = tc
    try:
        d = controller.launch(reactor, tor_binary='/usr/bin/tor', data_directory=ddir, connection_creator=lambda: defer.Deferred(),
                              timeout=30 if timeout_first else None, **extra)
        o = fakes.Outcome(d)
        if len(reactor.spawned) != 1:
            return R('tor-not-spawned-once', '%r', o.exc())
        pp, args = reactor.spawned[0]
        if user_dir and made:
            return R('temporary-directory-created-although-caller-supplied-one')
        if not user_dir and not cfg_dir and len(made) != 1:
            return R('no-temporary-directory-created')
        if timeout_first:
            reactor.clock.advance(31)
            if o.err != 1:
                return R('launch-not-failed-by-the-timeout')
        if exit_kind == 0:
            pp.processEnded(Failure(error.ProcessDone(0)))
        else:
            pp.processEnded(Failure(error.ProcessTerminated(None, 15, None)))
        if not user_dir and made:
            if made[0] not in deleted:
                return R('temporary-data-directory-not-removed-after-process-ended', 'deleted %r', deleted)
        if fire_shutdown:
            for f in reactor.triggers:
                f()
        if any('userdata' in str(x) or 'cfgdata' in str(x) for x in deleted):
            return R('caller-supplied-directory-removed', '%r', deleted)
        if o.fired > 1:
            return R('launch-result-fired-twice')
    except Exception as e:
        return R('exception', '%s: %s', type(e).__name__, e)
    finally:
        controller.os = _os
    reached()
    return ''


@cond(quick=dict(budget=60))
def c19_tempdir(user_dir: bool, exit_kind: int, fire_shutdown: bool, mkdir_ok: bool, timeout_first: bool, cfg_dir: bool) -> str:
    """real launch() with doubles for the reactor and the file system: temp dir removed at process end, caller's never
    (whether or not the caller's directory existed before: mkdir_ok = launch() could create it)"""
    exit_kind = api.pick(exit_kind, 0, 1)
    with api.no_tracing():
        return _tempdir(True if user_dir else False, exit_kind, True if fire_shutdown else False, True if mkdir_ok else False,
                        True if timeout_first else False, True if (cfg_dir and not user_dir) else False)
