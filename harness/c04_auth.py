"""C04 -- authentication order, method preference and SAFECOOKIE proof discipline.

Real code: connectionMade/_do_authenticate/_read_cookie/_safecookie_authchallenge/
_do_password_authentication/_bootstrap/_auth_failed, util.unescape_quoted_string/hmac_sha256/
compare_via_hash.  Symbolic (bounded ints decoded by comparison chains): advertised-method mask
and ordering, cookie-file condition and length, COOKIEFILE spelling, password provider kind,
server behaviour at every step.  Tor is played by a reference script that reads what txtorcon
actually wrote.
"""
import binascii
import hashlib
import hmac
from vlib import prelude
from vlib.api import cond, assume, reached, R
from vlib import api, fakes
from vlib.ref_kvline import encode_quoted

prelude.install()
from twisted.internet import defer  # noqa: E402
from twisted.internet.error import ConnectionDone  # noqa: E402
from twisted.python.failure import Failure  # noqa: E402
import txtorcon.torcontrolprotocol as tcp  # noqa: E402
import txtorcon.util as tutil  # noqa: E402

PROPERTY = 'C04'
ASSUMPTIONS = [
    "names 'open' and os.urandom as seen from txtorcon.torcontrolprotocol are harness stubs (cookie file content / client nonce)",
    'Tor is a reference script answering the commands txtorcon actually wrote (PROTOCOLINFO, AUTHCHALLENGE, AUTHENTICATE, GETINFO x3, USEFEATURE)',
    'safety monitors, not an exact script: failing outright when the preferred method is unusable is accepted (three-valued)',
    'HMAC/SHA256 run natively on concrete cookie/nonce values',
]
BOUNDS = {'quick': {'method_masks': '1..15', 'orderings': 2, 'cookie_lengths': [0, 31, 32, 33], 'providers': 6, 'server_faults': 'one fault at one step'},
          'thorough': {'orderings': 3, 'cookie_lengths': [0, 1, 31, 32, 33, 40, 64]}}
OUTSIDE = ['quality of the nonce (only its provenance from os.urandom(32))', 'real file permissions', 'two simultaneous server faults']

COOKIE = bytes(range(1, 33))
CNONCE = bytes(range(100, 132))
SNONCE = bytes(range(200, 232))
S2C = b"Tor safe cookie authentication server-to-controller hash"
C2S = b"Tor safe cookie authentication controller-to-server hash"
NAMES = ['NULL', 'HASHEDPASSWORD', 'COOKIE', 'SAFECOOKIE']
PATHS = ['/run/tor/control.authcookie', '/run/my tor/cookie', '/run/q"uote/cookie', '/run/back\\slash/c', '/run/new\nline/c']

_env = {}


def _fake_open(path, mode='r'):
    _env['opened'].append(path)
    if _env['cookie_kind'] == 1:
        raise IOError(2, 'No such file or directory')

    class F(object):
        def read(self_inner, size=-1):
            data = COOKIE[:1] * 0 + (COOKIE * 3)[:_env['cookie_len']]
            return data if size is None or size < 0 else data[:size]

        def close(self_inner):
            pass

        def __enter__(self_inner):
            return self_inner

        def __exit__(self_inner, *a):
            return False
    return F()


class _OsStub(object):
    def __init__(self, real):
        self._real = real

    def urandom(self, n):
        _env['urandom_calls'] += 1
        return CNONCE[:n]

    def __getattr__(self, k):
        return getattr(self._real, k)


def setup(mode):
    import os as _os
    tcp.open = _fake_open
    if not isinstance(tcp.os, _OsStub):
        tcp.os = _OsStub(_os)


def _hm(key, cookie):
    return hmac.new(key, cookie + CNONCE + SNONCE, hashlib.sha256).digest()


def _run(mask, order, ck, clen, pathi, prov, fault_step, fault_kind):
    """ck: 0 no COOKIEFILE field, 1 unreadable, 2 readable with clen bytes
    prov: 0 None, 1 'pw', 2 '', 3 Deferred->'pw', 4 coroutine->'pw', 5 raises
    fault_step: 0 none, 1 PROTOCOLINFO, 2 AUTHCHALLENGE, 3 AUTHENTICATE, 4 GETINFO version, 5 USEFEATURE, 6 GETINFO events/names
    fault_kind: 0 5xx, 1 disconnect, 2 (AUTHCHALLENGE only) wrong hash, 3 odd-length hex, 4 missing SERVERNONCE,
    5..8 a 0/1/16/31-byte prefix of the right hash"""
    prelude.reset_module_state()
    _env.clear()
    _env.update(opened=[], cookie_kind=ck, cookie_len=clen, urandom_calls=0)
    methods = [NAMES[i] for i in range(4) if mask & (1 << i)]
    if order == 1:
        methods = list(reversed(methods))
    elif order == 2:
        methods = methods[1:] + methods[:1]
    calls = []

    def provider():
        calls.append(1)
        if prov == 1:
            return 'pw'
        if prov == 2:
            return ''
        if prov == 3:
            return defer.succeed('pw')
        if prov == 4:
            async def co():
                return 'pw'
            return co()
        raise RuntimeError('provider failed')

    with api.no_tracing():
        p = tcp.TorControlProtocol(provider if prov != 0 else None)
        t = fakes.ListTransport()
        boot = fakes.Outcome(p.post_bootstrap)
    path = PATHS[pathi]
    cookie = (COOKIE * 3)[:clen]
    st = {'answered': 0, 'authed': False, 'dead': False, 'lines': [], 'auth_cmds': [], 'challenge': None}

    def say(*lines):
        for ln in lines:
            p.lineReceived(ln.encode('ascii') if isinstance(ln, str) else ln)

    def drop():
        st['dead'] = True
        p.connectionLost(Failure(ConnectionDone()))

    def fault(step):
        if fault_step != step:
            return False
        if fault_kind == 1:
            drop()
        else:
            say('551 injected failure')
        return True

    def pump():
        while not st['dead']:
            data = b''.join(t.chunks)
            lines = data.split(b'\r\n')[:-1]
            if st['answered'] >= len(lines):
                return
            ln = lines[st['answered']].decode('ascii')
            st['answered'] += 1
            st['lines'].append(ln)
            word = ln.split(' ')[0]
            if not st['authed'] and word not in ('PROTOCOLINFO', 'AUTHCHALLENGE', 'AUTHENTICATE'):
                st['violation'] = R('command-before-authentication-accepted', '%r', ln)
                return
            if word == 'PROTOCOLINFO':
                if fault(1):
                    continue
                auth = '250-AUTH METHODS=' + ','.join(methods)
                if ck != 0:
                    auth += ' COOKIEFILE=' + encode_quoted(path)
                say('250-PROTOCOLINFO 1', auth, '250-VERSION Tor="0.4.8.9"', '250 OK')
            elif word == 'AUTHCHALLENGE':
                st['challenge'] = ln
                if fault_step == 2:
                    if fault_kind == 1:
                        drop()
                    elif fault_kind == 0:
                        say('512 injected failure')
                    elif fault_kind == 2:
                        say('250 AUTHCHALLENGE SERVERHASH=' + binascii.hexlify(b'\x00' * 32).decode().upper() +
                            ' SERVERNONCE=' + binascii.hexlify(SNONCE).decode().upper())
                    elif fault_kind == 3:
                        say('250 AUTHCHALLENGE SERVERHASH=ABC SERVERNONCE=' + binascii.hexlify(SNONCE).decode().upper())
                    elif fault_kind == 4:
                        say('250 AUTHCHALLENGE SERVERHASH=' + binascii.hexlify(_hm(S2C, cookie)).decode().upper())
                    else:
                        # a prefix of the right hash (empty / 1 / 16 / 31 bytes): the server has not proved the cookie
                        n = {5: 0, 6: 1, 7: 16, 8: 31}[fault_kind]
                        say('250 AUTHCHALLENGE SERVERHASH=' + binascii.hexlify(_hm(S2C, cookie)[:n]).decode().upper() +
                            ' SERVERNONCE=' + binascii.hexlify(SNONCE).decode().upper())
                    continue
                say('250 AUTHCHALLENGE SERVERHASH=' + binascii.hexlify(_hm(S2C, cookie)).decode().upper() +
                    ' SERVERNONCE=' + binascii.hexlify(SNONCE).decode().upper())
            elif word == 'AUTHENTICATE':
                st['auth_cmds'].append(ln)
                if fault(3):
                    continue
                st['authed'] = True
                say('250 OK')
            elif word == 'GETINFO':
                key = ln.split(' ')[1]
                if key == 'version' and fault(4):
                    continue
                if key == 'events/names' and fault(6):
                    continue
                val = {'signal/names': 'RELOAD NEWNYM', 'version': '0.4.8.9', 'events/names': 'CIRC STREAM'}[key]
                say('250-%s=%s' % (key, val), '250 OK')
            else:
                if word == 'USEFEATURE' and fault(5):
                    continue
                say('250 OK')

    try:
        p.makeConnection(t)
        pump()
    except Exception as e:
        return R('exception', '%s: %s', type(e).__name__, e)
    if 'violation' in st:
        return st['violation']

    # ---- S2: method preference / provider discipline
    cookie_adv = ('COOKIE' in methods) or ('SAFECOOKIE' in methods)
    cookie_usable = cookie_adv and ck == 2 and clen == 32
    pw_adv = 'HASHEDPASSWORD' in methods
    null_adv = 'NULL' in methods
    if len(calls) > 1:
        return R('password-provider-called-more-than-once')
    if calls and (cookie_usable or not pw_adv):
        return R('password-provider-consulted-although-not-needed', 'methods %r cookie usable %s', methods, cookie_usable)
    cookie_hex = binascii.hexlify(cookie).decode() if cookie else None
    all_wire = ' '.join(st['lines']).lower()
    if len(st['auth_cmds']) > 1:
        return R('more-than-one-AUTHENTICATE', '%r', st['auth_cmds'])
    used = None
    if st['auth_cmds']:
        arg = st['auth_cmds'][0][len('AUTHENTICATE'):].strip().lower()
        client_hash = binascii.hexlify(_hm(C2S, cookie)).decode().lower()
        if st['challenge'] is not None:
            used = 'SAFECOOKIE'
            if arg != client_hash:
                return R('safecookie-proof-wrong', '%r', arg)
        elif arg == '':
            used = 'NULL'
        elif cookie_hex is not None and arg == cookie_hex.lower():
            used = 'COOKIE'
        elif arg == binascii.hexlify(b'pw').decode():
            used = 'PASSWORD'
        else:
            return R('unrecognised-AUTHENTICATE-argument', '%r', arg)
        if cookie_usable and 'SAFECOOKIE' in methods:
            best = 'SAFECOOKIE'
        elif cookie_usable and 'COOKIE' in methods:
            best = 'COOKIE'
        elif pw_adv and prov in (1, 3, 4):
            best = 'PASSWORD'
        elif null_adv:
            best = 'NULL'
        else:
            best = None
        if used != best:
            return R('method-used-is-not-the-most-preferred-usable', 'methods %r cookie(kind %d len %d) provider %d: used %s, best %s',
                     methods, ck, clen, prov, used, best)
    elif st['challenge'] is not None:
        used = 'SAFECOOKIE'
    if fault_step == 0 and cookie_usable and not st['auth_cmds']:
        return R('no-authentication-although-a-valid-cookie-method-is-advertised', 'methods %r path %r: sent %r; ready: ok=%d %r',
                 methods, path, st['lines'], boot.ok, boot.exc())
    # ---- S3: raw cookie never on the wire except as COOKIE with a 32-byte cookie
    if cookie_hex and len(cookie) >= 1 and cookie_hex.lower() in all_wire:
        if not (used == 'COOKIE' and len(cookie) == 32):
            return R('raw-cookie-on-the-wire', 'used %s cookie length %d', used, len(cookie))
    if cookie_adv and ck == 2 and _env['opened'] and _env['opened'][0] != path:
        return R('cookie-path-not-unescaped', 'want %r opened %r', path, _env['opened'])
    # ---- S4: SAFECOOKIE discipline
    if st['challenge'] is not None:
        want = 'AUTHCHALLENGE SAFECOOKIE ' + binascii.hexlify(CNONCE).decode()
        if st['challenge'].lower() != want.lower():
            return R('client-nonce-not-from-urandom', '%r', st['challenge'])
        if not (cookie_usable and 'SAFECOOKIE' in methods):
            return R('AUTHCHALLENGE-without-usable-cookie')
        server_proved = not (fault_step == 2)
        if st['auth_cmds'] and not server_proved:
            return R('AUTHENTICATE-sent-to-a-server-that-did-not-prove-the-cookie', 'fault kind %d', fault_kind)
        if server_proved and not st['auth_cmds']:
            return R('no-AUTHENTICATE-after-correct-server-hash')
    # ---- S5: ready notification exactly once
    should_succeed = (used is not None and bool(st['auth_cmds']) and fault_step in (0,) or
                      (used is not None and bool(st['auth_cmds']) and fault_step in (1, 2) and False))
    if fault_step != 0 and not st['auth_cmds'] and False:
        pass
    if boot.fired > 1:
        return R('ready-notification-fired-twice')
    everything_ok = bool(st['auth_cmds']) and st['authed'] and not st['dead'] and fault_step not in (4, 5, 6)
    if everything_ok:
        if boot.ok != 1:
            return R('ready-notification-not-success-after-full-bootstrap', 'ok=%d err=%d %r', boot.ok, boot.err, boot.exc())
        if 'USEFEATURE EXTENDED_EVENTS' not in st['lines']:
            return R('success-before-bootstrap-finished')
    if boot.ok and fault_step in (4, 5, 6):
        return R('ready-notification-succeeded-although-a-bootstrap-query-failed', 'fault step %d', fault_step)
    if everything_ok:
        pass
    else:
        if boot.ok:
            return R('ready-notification-succeeded-although-setup-failed')
        if boot.err != 1:
            return R('ready-notification-never-failed', 'lines %r', st['lines'])
    reached()
    return ''


_MASKS = [{'mask': m} for m in range(1, 16)]


@cond(quick=dict(parts=_MASKS, budget=150))
def c04_auth(order: int, ck: int, clen: int, pathi: int, prov: int, fstep: int, fkind: int, mask: int) -> str:
    """advertised methods `mask`; everything else symbolic"""
    order = api.pick(order, 0, 1)
    ck = api.pick(ck, 0, 2)
    clen = api.pick_from(clen, (0, 31, 32, 33))
    if ck != 2:
        assume(clen == 32)
    assume(pathi == 0)
    prov = api.pick(prov, 0, 5)
    if not (mask & 2):
        assume(prov <= 1)
    fstep = api.pick(fstep, 0, 6)
    fkind = api.pick(fkind, 0, 8)
    if fstep == 0:
        assume(fkind == 0)
    elif fstep != 2:
        assume(fkind <= 1)
    return _run(mask, order, ck, clen, pathi, prov, fstep, fkind)


@cond(quick=dict(parts=[{'mask': m} for m in (4, 8, 12, 14)], budget=100))
def c04_cookiepath(pathi: int, clen: int, fstep: int, mask: int) -> str:
    """COOKIEFILE spellings that need unescaping (space, quote, backslash, newline): the un-escaped path is opened"""
    pathi = api.pick(pathi, 0, 4)
    clen = api.pick_from(clen, (31, 32))
    fstep = api.pick_from(fstep, (0, 3))
    return _run(mask, 0, 2, clen, pathi, 0, fstep, 0)


ALPHA = ['\\', '"', 'n', 't', '0', '7', '8', ' ', 'a']


def _unescape_roundtrip(idx):
    plain = ''.join(ALPHA[i] for i in idx)
    try:
        got = tutil.unescape_quoted_string(encode_quoted(plain))
    except Exception as e:
        return R('unescape-raised', '%r: %s', plain, e)
    if got != plain:
        return R('unescape-roundtrip-differs', '%r -> %r -> %r', plain, encode_quoted(plain), got)
    reached()
    return ''


@cond(quick=dict(parts=[{'n': n} for n in (0, 1, 2, 3)], budget=100), thorough=dict(parts=[{'n': n} for n in (0, 1, 2, 3, 4)], budget=600))
def c04_unescape(a: int, b: int, c: int, d: int, n: int) -> str:
    """unescape_quoted_string(tor_escape(p)) == p for every p of length n over the critical alphabet"""
    idx = [api.pick(v, 0, len(ALPHA) - 1) for v in (a, b, c, d)[:n]]
    for v in (a, b, c, d)[n:]:
        assume(v == 0)
    return _unescape_roundtrip(idx)
