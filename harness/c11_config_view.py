"""C11 -- config view equals Tor's configuration, with stable types, across change events.

Real code: TorConfig.__init__/bootstrap/_do_setup/_get_defaults/_conf_changed/_find_real_name/__getattr__/
mark_unsaved/save, the TorConfigType parsers, _ListWrapper; the real TorControlProtocol underneath (GETINFO /
GETCONF / SETCONF / CONF_CHANGED travel through the real line machine).  Tor is vlib.simtor.SimTor.
Symbolic: per option its state (unset / one / two values) and values (ints, short strings), config/defaults
support, the case of the attribute name, and the sequence of CONF_CHANGED events / local edits / saves.
"""
from vlib import prelude
from vlib.api import cond, assume, reached, R
from vlib import api, fakes
from vlib.simtor import SimTor

prelude.install()
from twisted.internet.testing import MemoryReactorClock  # noqa: E402
from txtorcon.torconfig import TorConfig, _ListWrapper  # noqa: E402
from txtorcon.torcontrolprotocol import DEFAULT_VALUE  # noqa: E402

PROPERTY = 'C11'
ASSUMPTIONS = [
    'Tor = SimTor (control-spec config store; GETCONF answers bare "250 Name" for an unset string/list option and the value for numeric/boolean ones, as Tor does)',
    'real TorControlProtocol with a list transport, authentication skipped (post_bootstrap None => TorConfig bootstraps at once)',
    'three-valued: an unset option without a listed default may read as the DEFAULT sentinel, as "" or as an empty list (also a Boolean / number that another controller reset: Tor does not say what the default is)',
]
BOUNDS = {'quick': {'options': 'one of each declared type + SocksPort port list', 'values': 'ints -5..70000 rendered as text, strings of <=2 symbolic printable chars',
                    'change_events': '<=3 steps, single-option and two-option events; one event at any point during bootstrap'},
          'thorough': {'change_events': '<=3 steps'}}
OUTSIDE = ['hidden-service options', 'more than two values per option', 'values containing spaces or line breaks in CONF_CHANGED']

TABLE = [
    # name, config/names type, kind
    ('AvoidDiskWrites', 'Boolean', 'bool'),
    ('AssumeReachable', 'Boolean+Auto', 'auto'),
    ('NumCPUs', 'Integer', 'int'),
    ('CircuitPriorityHalflife', 'Float', 'float'),
    ('Nickname', 'String', 'str'),
    ('ExitNodes', 'RouterList', 'comma'),
    ('ExcludeNodes', 'RouterList', None),
    ('Log', 'LineList', 'lines'),
    ('SocksPortLines', 'Virtual', None),
    ('SocksPort', 'Dependent', 'ports'),
    ('__SocksPort', 'Dependent', None),
]


def make_world(values, defaults_supported=True, defaults=None):
    """values: name -> None | list of str"""
    p, t = fakes.new_protocol()
    p.post_bootstrap = None
    p._set_valid_events('CONF_CHANGED CIRC STREAM')
    opts = {}
    for name, typ, _k in TABLE:
        opts[name] = {'type': typ, 'values': values.get(name)}
    tor = SimTor(p, t, opts, defaults_supported)
    tor.defaults = defaults or {}
    return p, t, tor


def bootstrap(p, tor):
    cfg = TorConfig(p)
    out = fakes.Outcome(cfg.post_bootstrap)
    for _ in range(100):
        if not tor.pump():
            break
    return cfg, out


def want_view(kind, vals, default):
    """acceptable reads for an option of `kind` whose SimTor values are vals (None = unset)"""
    if vals is None and kind in ('bool', 'auto', 'int', 'float'):
        # reset to Tor's default: the default from config/defaults with the option's type, or (default not listed) the DEFAULT sentinel
        return want_view(kind, list(default), None) if default else [DEFAULT_VALUE]
    if kind == 'bool':
        return [bool(int(vals[0]))]
    if kind == 'auto':
        v = vals[0]
        return [-1 if (v == 'auto' or int(v) < 0) else (1 if int(v) else 0)]
    if kind == 'int':
        return [int(vals[0])]
    if kind == 'float':
        return [float(vals[0])]
    if kind == 'str':
        if vals is None:
            return [default[0]] if default else [DEFAULT_VALUE, '']
        return [vals[0]]
    if kind == 'comma':
        if vals is None:
            return [default] if default else [[], [DEFAULT_VALUE]]
        return [[x.strip() for x in vals[0].split(',')]]
    if kind in ('lines', 'ports'):
        if vals is None:
            return [list(default)] if default else [[], [DEFAULT_VALUE]]
        return [list(vals)]
    raise AssertionError(kind)


def check_option(cfg, name, kind, vals, default, attr=None):
    try:
        got = cfg.__getattr__(attr or name)     # (the builtin getattr() runs __getattr__ outside the tracer)
    except Exception as e:
        return R('read-raised', '%s: %s: %s', name, type(e).__name__, e)
    acceptable = want_view(kind, vals, default)
    if kind in ('comma', 'lines', 'ports'):
        if not isinstance(got, _ListWrapper):
            return R('list-option-is-not-a-tracked-list', '%s reads as %r (%s)', name, got, type(got).__name__)
        if not all(isinstance(x, str) for x in got):
            return R('list-option-is-not-flat-list-of-strings', '%s reads as %r', name, list(got))
        if list(got) not in acceptable:
            return R('list-value-differs', '%s: view %r tor %r', name, list(got), vals)
    else:
        if got not in acceptable or (kind == 'bool' and not isinstance(got, bool) and got != DEFAULT_VALUE):
            return R('scalar-value-differs', '%s: view %r tor %r', name, got, vals)
    return ''


def _val(kind, i, s, variant):
    """concrete-looking text for one value built from the symbolic int i / string s"""
    if kind == 'bool':
        return '1' if i % 2 else '0'
    if kind == 'auto':
        return ['0', '1', 'auto'][i % 3]
    if kind == 'int':
        return str(i)
    if kind == 'float':
        return str(i) + '.5'
    if kind == 'str':
        return 'n' + s
    if kind == 'comma':
        return 'a' + s + ',b' if variant else 'x' + s
    if kind == 'lines':
        return 'notice file /l' + s if variant else 'n' + s
    return str(9000 + (i % 50)) + (' IsolateDestAddr' if variant else '')


_KINDS = ['bool', 'auto', 'int', 'float', 'str', 'comma', 'lines', 'ports']
_NAME = {k: n for n, _t, k in TABLE if k}


def _pr(s, inner_blank=False):
    """printable, without the characters the wire forms treat specially; inner_blank: a blank is allowed where it ends up strictly inside an
    item (first of two characters)"""
    for k, c in enumerate(s):
        if inner_blank and c == ' ' and k == 0 and len(s) == 2:
            continue
        assume(33 <= ord(c) <= 126 and c != '"' and c != '\\' and c != ',')


@cond(quick=dict(parts=[{'ki': i, 'state': st} for i in range(8) for st in range(3)], budget=100))
def c11_bootstrap(ki: int, state: int, i: int, s: str, variant: bool, defsup: bool, upper: bool) -> str:
    """one option of kind ki in state 0 unset / 1 one value / 2 two values; the others at fixed values"""
    kind = _KINDS[ki]
    if kind in ('bool', 'auto', 'int', 'float'):
        assume(state == 1)
    if kind in ('str', 'comma'):
        assume(state <= 1)
    assume(-5 <= i <= 70000 and len(s) <= 2)
    _pr(s, kind == 'comma')       # a comma-list item may contain a blank ("10 minutes, 1 hour")
    if kind in ('bool', 'auto', 'ports', 'float'):
        i = api.pick(i, 0, 5)
    variant = True if variant else False
    values = {'AvoidDiskWrites': ['0'], 'AssumeReachable': ['auto'], 'NumCPUs': ['4'], 'CircuitPriorityHalflife': ['30.0'],
              'Nickname': ['fixed'], 'ExitNodes': None, 'ExcludeNodes': ['{aa},{bb}'], 'Log': ['notice stdout'], 'SocksPort': ['9050'], '__SocksPort': None, 'SocksPortLines': None}
    name = _NAME[kind]
    if state == 0:
        values[name] = None
    elif state == 1:
        values[name] = [_val(kind, i, s, variant)]
    else:
        values[name] = [_val(kind, i, s, variant), _val(kind, i + 1, s + 'z', not variant)]
    defaults = {'Log': ['notice stdout'], 'SocksPort': ['9050']} if defsup else {}
    p, t, tor = make_world(values, True if defsup else False, defaults)
    try:
        cfg, out = bootstrap(p, tor)
    except Exception as e:
        return R('bootstrap-raised', '%s: %s', type(e).__name__, e)
    if out.ok != 1:
        return R('bootstrap-did-not-complete', 'ok=%d err=%d %r', out.ok, out.err, out.exc())
    for n, _t, k in TABLE:
        if k is None:
            continue
        attr = (n.upper() if upper else n.lower()) if n == name else None
        r = check_option(cfg, n, k, values[n], defaults.get(n), attr)
        if r:
            return r
    reached()
    return ''


def _changed(kind, steps, svals, multi=False):
    """steps: list of op codes: 0 CONF_CHANGED unset, 1 CONF_CHANGED one value, 2 CONF_CHANGED two values,
    3 local in-place edit (append) / scalar assignment, 4 save(), 5 assignment of a new list"""
    name = _NAME[kind]
    values = {'AvoidDiskWrites': ['0'], 'AssumeReachable': ['auto'], 'NumCPUs': ['4'], 'CircuitPriorityHalflife': ['30.0'],
              'Nickname': ['fixed'], 'ExitNodes': ['x1'], 'ExcludeNodes': ['{aa},{bb}'], 'Log': ['notice stdout'], 'SocksPort': ['9050'], '__SocksPort': None, 'SocksPortLines': None}
    p, t, tor = make_world(values, True, {'Nickname': ['Unnamed'], 'NumCPUs': ['0']})
    with api.no_tracing():
        cfg, out = bootstrap(p, tor)
        if out.ok != 1:
            return 'harness: bootstrap failed %r' % (out.exc(),)
    listy = kind in ('comma', 'lines', 'ports')
    pending_local = None
    assigned = False
    dflt = {'str': ['Unnamed'], 'int': ['0']}.get(kind)
    try:
        for n, op in enumerate(steps):
            if op <= 2:
                if not listy and op == 2:
                    assume(False)
                if kind == 'comma' and op == 2:
                    assume(False)
                vals = [None, [_val(kind, 7 + n, svals[n], False)], [_val(kind, 7 + n, svals[n], False), _val(kind, 8 + n, svals[n] + 'y', True)]][op]
                tor.options[name]['values'] = vals
                changes = [(name, vals)]
                if multi:
                    # one event announcing several options; the option under test is not the last one named
                    xname, xkind, xvals = ('NumCPUs', 'int', [str(8 + n)]) if kind == 'str' else ('Nickname', 'str', ['nick%d' % n])
                    if n % 2:
                        xvals = None      # ... and at odd steps that second option is announced bare (it was reset)
                    tor.options[xname]['values'] = xvals
                    changes.append((xname, xvals))
                tor.say(*tor.conf_changed_lines(changes))
                pending_local = None
                r = check_option(cfg, name, kind, vals, dflt)
                if r:
                    return r
                if multi:
                    r = check_option(cfg, xname, xkind, xvals, {'Nickname': ['Unnamed'], 'NumCPUs': ['0']}[xname])
                    if r:
                        return R('second-option-of-the-event', '%s', r)
                for spelling in (name.lower(), name.upper()):
                    r = check_option(cfg, name, kind, vals, dflt, spelling)
                    if r:
                        return R('read-depends-on-the-spelling-of-the-name', '%s: %s', spelling, r)
            elif op == 3:
                if listy:
                    # (reads show Tor's live value, so a list that was *assigned* is not edited through a fresh read before it is
                    # saved: the documented behaviour of __getattr__, excluded here as in C10)
                    assume(not assigned)
                    newv = _val(kind, 40 + n, 'q', False)
                    lst = cfg.__getattr__(name)
                    lst.append(newv)
                    pending_local = list(lst)
                else:
                    newv = _val(kind, 40 + n, 'q', False)
                    setattr(cfg, name, {'bool': newv == '1', 'auto': {'0': 0, '1': 1, 'auto': -1}.get(newv), 'int': int(newv) if kind == 'int' else 0,
                                        'float': newv, 'str': newv}[kind])
                    pending_local = [newv]
                if not cfg.needs_save():
                    return R('edit-after-change-event-not-tracked', '%s: in-place edit did not mark the option unsaved', name)
            elif op == 5:
                # replace the whole list by assignment (list options only)
                if not listy:
                    assume(False)
                newv = _val(kind, 60 + n, 'r', False)
                setattr(cfg, name, [newv])
                pending_local = [newv]
                assigned = True
                if not cfg.needs_save():
                    return R('edit-after-change-event-not-tracked', '%s: assignment did not mark the option unsaved', name)
            else:
                before = len(tor.setconfs)
                o = fakes.Outcome(cfg.save())
                tor.pump()
                if pending_local is not None:
                    if len(tor.setconfs) != before + 1:
                        return R('pending-edit-not-sent-on-save', '%s', name)
                    if o.ok != 1:
                        return R('save-failed', '%r', o.exc())
                    got = tor.options[name]['values']
                    if listy:
                        if got != pending_local:
                            return R('saved-list-differs-from-edited-view', '%s: tor has %r, view was %r', name, got, pending_local)
                    if [k for k, _v in (tor.setconfs[-1] or []) if k != name]:
                        return R('save-sent-an-option-that-was-not-edited', '%r', tor.setconfs[-1])
                    # after the save the view shows what Tor now has, with the option's type (a list stays a tracked list)
                    r = check_option(cfg, name, kind, got if kind != 'comma' else [','.join(got)], dflt)
                    if r:
                        return R('view-after-save', '%s', r)
                    pending_local = None
                assigned = False
        if kind == 'ports' and len(cfg.__getattr__(name)):
            ep = cfg.socks_endpoint(MemoryReactorClock())
            if ep is None:
                return R('socks_endpoint-failed')
    except Exception as e:
        return R('exception', '%s: %s', type(e).__name__, e)
    reached()
    return ''


@cond(quick=dict(parts=[{'ki': i, 'o1': a} for i in range(8) for a in range(6)], budget=100))
def c11_changed(ki: int, o1: int, o2: int, o3: int, multi: bool) -> str:
    """after bootstrap: 3 steps of CONF_CHANGED (0/1/2 values; alone or in an event that names a second option) / local edit / save on the option of kind ki"""
    o2 = api.pick(o2, 0, 5)
    o3 = api.pick(o3, 0, 5)
    multi = True if multi else False
    with api.no_tracing():      # every choice is concrete by now
        return _changed(_KINDS[ki], [o1, o2, o3], ['u', 'v', 'k'], multi)


def _step(tor):
    rest = tor.pending()
    if not rest or tor.dead:
        return False
    ln = rest[0].decode('ascii')
    tor.answered += 1
    tor.lines.append(ln)
    tor.answer(ln)
    return True


def _during_bootstrap(kind, k, op):
    """Tor answers k of the bootstrap's commands, then another controller changes the option (CONF_CHANGED, if TorConfig has
    subscribed by then), then Tor answers the rest: the finished view must show Tor's current value"""
    name = _NAME[kind]
    values = {'AvoidDiskWrites': ['0'], 'AssumeReachable': ['auto'], 'NumCPUs': ['4'], 'CircuitPriorityHalflife': ['30.0'],
              'Nickname': ['fixed'], 'ExitNodes': ['x1'], 'ExcludeNodes': ['{aa},{bb}'], 'Log': ['notice stdout'], 'SocksPort': ['9050'], '__SocksPort': None, 'SocksPortLines': None}
    p, t, tor = make_world(values, True, {'Nickname': ['Unnamed']})
    listy = kind in ('comma', 'lines', 'ports')
    if not listy and op != 1 and not (kind == 'str' and op == 0):
        assume(False)
    if kind == 'comma' and op == 2:
        assume(False)
    try:
        cfg = TorConfig(p)
        out = fakes.Outcome(cfg.post_bootstrap)
        for _ in range(k):
            if not _step(tor):
                assume(False)        # bootstrap needs fewer than k commands
        if out.fired:
            assume(False)            # (events after bootstrap are c11_changed's subject)
        subscribed = bool(tor.setevents) and 'CONF_CHANGED' in tor.setevents[-1]
        vals = [None, [_val(kind, 7, 'u', False)], [_val(kind, 7, 'u', False), _val(kind, 8, 'uy', True)]][op]
        tor.options[name]['values'] = vals
        if subscribed:
            tor.say(*tor.conf_changed_lines([(name, vals)]))
        asked_before = any(ln.upper().startswith('GETCONF ' + name.upper()) for ln in tor.lines)
        for _ in range(200):
            if not _step(tor):
                break
        if out.ok != 1:
            return R('bootstrap-failed', '%r', out.exc())
        if asked_before and not subscribed:
            assume(False)            # changed behind TorConfig's back before it could hear about it: outside the statement
        r = check_option(cfg, name, kind, vals, ['Unnamed'] if kind == 'str' else None)
        if r:
            return R('change-announced-during-bootstrap-lost', 'after %d answers: %s', k, r)
    except Exception as e:
        return R('exception', '%s: %s', type(e).__name__, e)
    reached()
    return ''


@cond(quick=dict(parts=[{'ki': i} for i in range(8)], budget=100))
def c11_during_bootstrap(ki: int, k: int, op: int) -> str:
    """a CONF_CHANGED event that arrives while bootstrap is still fetching options (after k answers)"""
    k = api.pick(k, 0, 24)
    op = api.pick(op, 0, 2)
    with api.no_tracing():
        return _during_bootstrap(_KINDS[ki], k, op)


LIST_TYPES = [('CommaList', 'a,b', ['a', 'b'], 'c,d', ['c', 'd']), ('TimeIntervalCommaList', '0,60,3600', ['0', '60', '3600'], '10,20', ['10', '20']),
              ('RouterList', 'x1,x2', ['x1', 'x2'], 'y1', ['y1']), ('LineList', 'notice stdout', ['notice stdout'], 'info file /i', ['info file /i'])]


def _list_type(ti, ev):
    """an option of every list type name Tor announces: after bootstrap and after a CONF_CHANGED (ev 1: new value, 2: reset) the view is a
    tracked list with exactly Tor's items, and an in-place edit is noticed"""
    typ, initial, items0, changed, items1 = LIST_TYPES[ti]
    p, t = fakes.new_protocol()
    p.post_bootstrap = None
    p._set_valid_events('CONF_CHANGED CIRC STREAM')
    opts = {'TheOption': {'type': typ, 'values': [initial]}, 'Nickname': {'type': 'String', 'values': ['fixed']}}
    tor = SimTor(p, t, opts, True)
    tor.defaults = {}
    try:
        cfg = TorConfig(p)
        out = fakes.Outcome(cfg.post_bootstrap)
        for _ in range(50):
            if not tor.pump():
                break
        if out.ok != 1:
            return R('bootstrap-failed', '%s: %r', typ, out.exc())
        want = items0
        if ev == 1:
            tor.options['TheOption']['values'] = [changed]
            tor.say(*tor.conf_changed_lines([('TheOption', [changed])]))
            want = items1
        elif ev == 2:
            tor.options['TheOption']['values'] = None
            tor.say(*tor.conf_changed_lines([('TheOption', None)]))
            want = []
        v = cfg.__getattr__('TheOption')
        if not isinstance(v, _ListWrapper):
            return R('list-option-is-not-a-tracked-list', '%s reads as %r (%s)', typ, v, type(v).__name__)
        if [str(x) for x in v] != want and not (ev == 2 and list(v) == [DEFAULT_VALUE]):
            return R('list-value-differs', '%s: view %r tor %r', typ, list(v), want)
        v.append('zz')
        if not cfg.needs_save():
            return R('edit-after-change-event-not-tracked', '%s: in-place edit did not mark the option unsaved', typ)
    except Exception as e:
        return R('exception', '%s: %s: %s', typ, type(e).__name__, e)
    reached()
    return ''


@cond(quick=dict(budget=60))
def c11_list_types(ti: int, ev: int) -> str:
    """CommaList / TimeIntervalCommaList / RouterList / LineList options: tracked list with Tor's items after bootstrap and after events"""
    ti = api.pick(ti, 0, len(LIST_TYPES) - 1)
    ev = api.pick(ev, 0, 2)
    with api.no_tracing():
        return _list_type(ti, ev)
