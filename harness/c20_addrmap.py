"""C20 -- address map holds a name exactly until its latest mapping expires.

Real code: txtorcon.addrmap.Addr.update/_expire, AddrMap.update/find/notify, TorState._bootstrap (address-mappings/all) and _addr_map (ADDRMAP events),
scheduled on a real twisted.internet.task.Clock.  Symbolic: the expiry offset
of every ADDRMAP line and every clock advance (ints; the solver picks the
boundary values such as 86400).  Reference: name -> (address, absolute expiry).
"""
from vlib import prelude, shims
from vlib.api import cond, assume, reached, note
from vlib import api

prelude.install()

from twisted.internet import task  # noqa: E402
from zope.interface import implementer  # noqa: E402
import txtorcon.addrmap as addrmap  # noqa: E402
from txtorcon.interface import IAddrListener  # noqa: E402
from txtorcon.torstate import TorState  # noqa: E402
from vlib import fakes  # noqa: E402

PROPERTY = 'C20'
NAMES = ['a.example.com', 'b.example.com']
DAY = 86400
MAX_OFF = 3 * DAY
MAX_ADV = 4 * DAY

ASSUMPTIONS = [
    'datetime in txtorcon.addrmap replaced by an int-backed shim (vlib.shims.SymDT/SymDelta) whose normalisation '
    '(days=t//86400, seconds=t%86400) is validated against the real timedelta at start-up; native replays use the real datetime',
    'wall clock (utcnow) and reactor time advance together: utcnow() == epoch + Clock.seconds()',
    'local-time field interpreted as UTC (TZ=UTC)',
    'after every ADDRMAP line the reactor gets one turn (Clock.advance(0)) before the monitors look (c20_same_turn: two lines share a turn)',
    'symbolic runs use an integer-time subclass of task.Clock/DelayedCall (same code, int 0 instead of float 0.0); native replays use the stock task.Clock',
]
BOUNDS = {
    'quick': {'names': 2, 'steps': '2 (all kinds) and 3 (timed line, any line, clock advance; any line, clock advance, any line); 3 through a real TorState (0-2 mappings listed at bootstrap, then events, then a clock advance)', 'expiry_offset_s': [-10, MAX_OFF], 'advance_s': [0, MAX_ADV], 'line_forms': '5 kinds; failed lookups in 3 spellings'},
    'thorough': {'names': 2, 'steps': 3, 'expiry_offset_s': [-10, MAX_OFF], 'advance_s': [0, MAX_ADV], 'line_forms': '5 kinds; failed lookups in 3 spellings'},
}
OUTSIDE = ['non-UTC local time', 'sub-second expiries', 'more than 3 steps / 2 names', 'expiry offsets beyond 3 days']

_mode = ['native']


def setup(mode):
    _mode[0] = mode
    if mode == 'symbolic':
        shims.validate_datetime_shim()


@implementer(IAddrListener)
class Rec(object):
    def __init__(self):
        self.log = []

    def addrmap_added(self, addr):
        self.log.append(('added', addr.name))

    def addrmap_expired(self, name):
        self.log.append(('expired', name))


_ERR_FORM = [0]


def _line(kind, name, ip, tok_local, tok_utc):
    if kind == 1:
        return '%s %s "%s"' % (name, ip, tok_utc)
    if kind == 2:
        return '%s %s "%s" EXPIRES="%s" CACHED="NO"' % (name, ip, tok_local, tok_utc)
    if kind == 3:
        return '%s %s NEVER' % (name, ip)
    if kind == 4:
        return '%s %s NEVER CACHED="YES"' % (name, ip)
    if kind == 5:
        # a failed lookup; older Tors send it without the error= keyword, or in the short form
        form = _ERR_FORM[0] % 3
        if form == 0:
            return '%s <error> "%s" error=yes EXPIRES="%s" CACHED="NO"' % (name, tok_local, tok_utc)
        if form == 1:
            return '%s <error> "%s" EXPIRES="%s" CACHED="NO"' % (name, tok_local, tok_utc)
        return '%s <error> "%s"' % (name, tok_utc)
    raise AssertionError(kind)


def _bootstrap_state(state, p, t, lines):
    """run the real TorState._bootstrap(); the harness plays Tor and lists `lines` under address-mappings/all
    (single-line reply for one mapping, data block for several, as Tor renders GETINFO values)"""
    done = fakes.Outcome(state.post_bootstrap)
    state._bootstrap()
    answered = 0
    for _ in range(40):
        sent = b''.join(t.chunks).split(b'\r\n')[:-1]
        if answered >= len(sent):
            break
        cmd = sent[answered].decode('ascii')
        answered += 1
        if cmd == 'GETINFO ns/all':
            rep = ['250+ns/all=', '.', '250 OK']
        elif cmd == 'GETINFO address-mappings/all':
            if len(lines) == 0:
                rep = ['250-address-mappings/all=', '250 OK']
            elif len(lines) == 1:
                rep = ['250-address-mappings/all=' + lines[0], '250 OK']
            else:
                rep = ['250+address-mappings/all='] + list(lines) + ['.', '250 OK']
        elif cmd == 'GETINFO process/pid':
            rep = ['250-process/pid=4242', '250 OK']
        elif cmd.startswith('GETINFO '):
            rep = ['250-' + cmd[8:] + '=', '250 OK']
        else:
            rep = ['250 OK']
        for ln in rep:
            p.lineReceived(ln.encode('ascii'))
    return done


def _history(k, kinds, names, vals, via=0, nboot=0):
    """via 0: lines go straight to AddrMap.update; via 1: the map belongs to a real TorState, the first `nboot` mappings are listed by
    GETINFO address-mappings/all during the real _bootstrap(), later ones arrive as 650 ADDRMAP events through the real protocol"""
    sym = _mode[0] == 'symbolic'
    clock = shims.make_int_clock() if sym else task.Clock()
    if via == 0:
        am = addrmap.AddrMap()
        state = p = t = None
    else:
        with api.no_tracing():
            p, t = fakes.new_protocol()
            p._set_valid_events('STREAM CIRC NEWCONSENSUS ADDRMAP HS_DESC')
            state = TorState(p, bootstrap=False)
        am = state.addrmap
    am.scheduler = clock
    boot_lines = []
    rec = Rec()
    am.add_listener(rec)
    now = [0]
    if sym:
        shims.SymDT._table = {}
        shims.SymDT._clock = lambda: now[0]
        addrmap.datetime = shims.DatetimeModuleShim
        base = None
    else:
        mod, base = shims.real_datetime_module(lambda: now[0])
        addrmap.datetime = mod

    def token(i, which, t):
        if sym:
            tk = 'T%d%s' % (i, which)
            shims.SymDT._table[tk] = t
            return tk
        import datetime as real
        return (base + real.timedelta(seconds=t)).strftime("%Y-%m-%d %H:%M:%S")

    model = {}          # name -> [ip, expiry or None]
    want_added = {n: 0 for n in NAMES}
    want_expired = {n: 0 for n in NAMES}
    loose = {n: False for n in NAMES}   # error-on-new-name happened: counts are three-valued
    ips = ['<error>']

    def prune():
        for n in list(model):
            e = model[n][1]
            if e is not None and now[0] >= e:
                del model[n]
                want_expired[n] += 1

    for i in range(k):
        kind, ni, v = kinds[i], api.pick(names[i], 0, 1), vals[i]
        name = NAMES[ni]
        if kind == 0:
            assume(0 <= v <= MAX_ADV)
            now[0] = now[0] + v
            try:
                clock.advance(v)
            except Exception as e:
                return 'exception-in-timer: step %d advance: %s: %s' % (i, type(e).__name__, e)
            prune()
        else:
            assume(-10 <= v <= MAX_OFF)
            ip = '10.0.%d.%d' % (i + 1, ni + 1)
            exp = now[0] + v
            _ERR_FORM[0] = i + ni          # which of the three <error> spellings: varies with step and name
            line = _line(kind, name, ip, token(i, 'L', exp + 5 * 3600), token(i, 'U', exp))
            was_alive = name in model
            try:
                if via == 0:
                    am.update(line)
                elif i < nboot:
                    boot_lines.append(line)
                    if i == nboot - 1:
                        done = _bootstrap_state(state, p, t, boot_lines)
                        if done.ok != 1:
                            return 'state-bootstrap-failed: %r' % (done.exc(),)
                else:
                    if i == 0 and nboot == 0:
                        done = _bootstrap_state(state, p, t, [])
                        if done.ok != 1:
                            return 'state-bootstrap-failed: %r' % (done.exc(),)
                    p.lineReceived(('650 ADDRMAP ' + line).encode('ascii'))
                clock.advance(0)
            except Exception as e:
                return 'exception-in-update: step %d kind %d: %s: %s' % (i, kind, type(e).__name__, e)
            if kind == 5:
                if was_alive:
                    del model[name]
                    want_expired[name] += 1
                else:
                    loose[name] = True
            else:
                ips.append(ip)
                if not was_alive:
                    want_added[name] += 1
                model[name] = [ip, None if kind in (3, 4) else exp]
            prune()
        # ---- monitors, after every step (mappings listed at bootstrap exist only once the bootstrap has run)
        if via == 1 and i < nboot - 1:
            continue
        for n in NAMES:
            alive = n in model
            try:
                a = am.find(n)
            except KeyError:
                a = None
            if alive and a is None:
                return 'lookup-fails-for-live-mapping: step %d name %s' % (i, n)
            if (not alive) and a is not None:
                return 'expired-or-dropped-mapping-still-found-by-name: step %d name %s' % (i, n)
            if alive and str(a.ip) != model[n][0]:
                return 'stale-address: step %d name %s has %s want %s' % (i, n, a.ip, model[n][0])
        live_ips = [m[0] for m in model.values()]
        for ipx in ips:
            if ipx in live_ips:
                continue
            try:
                a = am.find(ipx)
            except KeyError:
                a = None
            if a is not None:
                # three-valued: an address that was *replaced* (not expired) may still resolve to the
                # live mapping object of its name; the statement only rules out expired/dropped ones
                if not (a.name in model and am.addr.get(a.name) is a):
                    return 'expired-or-replaced-mapping-still-found-by-address: step %d address %s' % (i, ipx)
        for ev in rec.log:
            if ev[1] not in NAMES:
                return 'listener-told-about-something-that-is-not-the-name-in-the-line: %r' % (ev,)
        for n in NAMES:
            got_a = sum(1 for ev in rec.log if ev == ('added', n))
            got_e = sum(1 for ev in rec.log if ev == ('expired', n))
            if loose[n]:
                # error mapping for an unknown name: a balanced extra added/expired pair is tolerated
                extra_a = got_a - want_added[n]
                extra_e = got_e - want_expired[n]
                if extra_a != extra_e or extra_a < 0:
                    return 'listener-counts: step %d name %s added %d/%d expired %d/%d' % (
                        i, n, got_a, want_added[n], got_e, want_expired[n])
            else:
                if got_a != want_added[n]:
                    return 'listener-added-count: step %d name %s got %d want %d' % (i, n, got_a, want_added[n])
                if got_e != want_expired[n]:
                    return 'listener-expired-count: step %d name %s got %d want %d' % (i, n, got_e, want_expired[n])
    reached()
    return ''


_K2 = [{'k1': a, 'k2': b} for a in range(1, 6) for b in range(0, 6)]
_K3 = [{'k1': a, 'k2': b, 'k3': c} for a in range(1, 6) for b in range(0, 6) for c in range(0, 6)]


@cond(quick=dict(parts=_K2, budget=60), thorough=dict(parts=_K2, budget=120))
def c20_history2(k1: int, k2: int, n1: int, n2: int, v1: int, v2: int) -> str:
    """2-step histories over 2 names; kinds pinned per partition, names/offsets/advances symbolic"""
    assume(0 <= n1 <= 1 and 0 <= n2 <= 1)
    return _history(2, [k1, k2], [n1, n2], [v1, v2])


_K3Q = [{'k1': a, 'k2': b, 'k3': 0} for a in (1, 2) for b in range(1, 6)] + \
       [{'k1': a, 'k2': 0, 'k3': c} for a in (1, 3, 4, 5) for c in (1, 2, 3)]      # a line, time passes, another line


@cond(quick=dict(parts=_K3Q, budget=60), thorough=dict(parts=_K3, budget=240))
def c20_history3(k1: int, k2: int, k3: int, n1: int, n2: int, n3: int, v1: int, v2: int, v3: int) -> str:
    """3-step histories"""
    assume(0 <= n1 <= 1 and 0 <= n2 <= 1 and 0 <= n3 <= 1)
    return _history(3, [k1, k2, k3], [n1, n2, n3], [v1, v2, v3])


_KB = [{'nboot': nb, 'k1': a, 'k2': b} for nb in (0, 1, 2) for a in (1, 2, 3, 4) for b in ((1, 2, 3, 4) if nb == 2 else (0, 1, 2, 3, 4, 5))]


@cond(quick=dict(parts=_KB, budget=100))
def c20_via_state(k1: int, k2: int, k3: int, n1: int, n2: int, n3: int, v1: int, v2: int, v3: int, nboot: int) -> str:
    """the map of a real TorState: the first nboot mappings come from GETINFO address-mappings/all during _bootstrap (one mapping:
    single-line reply; two: data block), the rest as 650 ADDRMAP events; the third step is a clock advance"""
    assume(0 <= n1 <= 1 and 0 <= n2 <= 1 and 0 <= n3 <= 1)
    assume(k3 == 0)
    if nboot == 2:
        assume(n1 != n2)        # Tor lists a name once
    return _history(3, [k1, k2, k3], [n1, n2, n3], [v1, v2, v3], 1, nboot)


def _same_turn(k1, k2, n_ip, v1, v2, v3):
    """two ADDRMAP lines for one name arrive in the same reactor turn (one TCP chunk): no timer can run between them"""
    sym = _mode[0] == 'symbolic'
    clock = shims.make_int_clock() if sym else task.Clock()
    am = addrmap.AddrMap()
    am.scheduler = clock
    rec = Rec()
    am.add_listener(rec)
    now = [0]
    if sym:
        shims.SymDT._table = {}
        shims.SymDT._clock = lambda: now[0]
        addrmap.datetime = shims.DatetimeModuleShim
        base = None
    else:
        mod, base = shims.real_datetime_module(lambda: now[0])
        addrmap.datetime = mod

    def token(i, which, t):
        if sym:
            tk = 'T%d%s' % (i, which)
            shims.SymDT._table[tk] = t
            return tk
        import datetime as real
        return (base + real.timedelta(seconds=t)).strftime("%Y-%m-%d %H:%M:%S")

    name = NAMES[0]
    assume(-10 <= v1 <= MAX_OFF and -10 <= v2 <= MAX_OFF and 0 <= v3 <= MAX_ADV)
    ip1, ip2 = '10.0.1.1', ('10.0.2.1' if n_ip else '10.0.1.1')
    try:
        am.update(_line(k1, name, ip1, token(0, 'L', v1 + 5 * 3600), token(0, 'U', v1)))
        am.update(_line(k2, name, ip2, token(1, 'L', v2 + 5 * 3600), token(1, 'U', v2)))
        clock.advance(0)
    except Exception as e:
        return 'exception-in-update: %s: %s' % (type(e).__name__, e)
    exp2 = None if k2 in (3, 4) else v2        # the latest mapping decides

    def look():
        try:
            return am.find(name)
        except KeyError:
            return None

    def check(step):
        alive = exp2 is None or now[0] < exp2
        a = look()
        if alive and a is None:
            return 'lookup-fails-for-live-mapping: %s at t=%s' % (step, now[0])
        if not alive and a is not None:
            return 'expired-or-dropped-mapping-still-found-by-name: %s at t=%s (latest expiry %s)' % (step, now[0], exp2)
        if alive and str(a.ip) != ip2:
            return 'stale-address: %s has %s want %s' % (step, a.ip, ip2)
        return ''
    r = check('after both lines')
    if r:
        return r
    now[0] = now[0] + v3
    try:
        clock.advance(v3)
    except Exception as e:
        return 'exception-in-timer: %s: %s' % (type(e).__name__, e)
    r = check('after the advance')
    if r:
        return r
    got_a = sum(1 for ev in rec.log if ev[0] == 'added')
    got_e = sum(1 for ev in rec.log if ev[0] == 'expired')
    expired_now = not (exp2 is None or now[0] < exp2)
    # three-valued: the first mapping may or may not be reported as a separate added/expired pair when it was already past
    if not ((got_a, got_e) == (1, 1 if expired_now else 0) or (v1 <= 0 and k1 in (1, 2) and (got_a, got_e) == (2, 2 if expired_now else 1))):
        return 'listener-counts: added %d expired %d (latest mapping expired: %s)' % (got_a, got_e, expired_now)
    reached()
    return ''


@cond(quick=dict(parts=[{'k1': a, 'k2': b} for a in (1, 2, 3, 4) for b in (1, 2, 3, 4)], budget=100))
def c20_same_turn(k1: int, k2: int, n_ip: bool, v1: int, v2: int, v3: int) -> str:
    """two lines for the same name in one reactor turn, then time passes: the latest mapping alone decides"""
    return _same_turn(k1, k2, True if n_ip else False, v1, v2, v3)
