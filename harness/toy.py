from vlib.api import cond, assume, reached
PROPERTY = 'TOY'

@cond(quick=dict(parts=[{'k': 1}, {'k': 2}], budget=30))
def toy_ok(a: int, b: int, k: int) -> str:
    assume(0 <= a < 100 and 0 <= b < 100)
    if a + b == 2 * k + 1000:
        return 'impossible'
    if a > b:
        reached()
    return ''

@cond(quick=dict(parts=[{}], budget=30))
def toy_bad(a: int, s: str) -> str:
    assume(0 <= a < 100000 and len(s) <= 3)
    reached()
    if a == 86400 and s.startswith('x"'):
        return 'bad a=%d s=%r' % (a, s)
    return ''
