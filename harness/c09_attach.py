"""C09 -- each new stream gets exactly one attachment decision, honouring the attacher.

Real code: TorState._stream_update/_maybe_attach (issue_stream_attach)/set_attacher/undo_attacher,
circuit._CircuitAttacher/_get_circuit_attacher/TorCircuitEndpoint.connect.
Symbolic: the attacher's answer and how it is delivered, the stream kind, later events of the same
stream, and (via-circuit part) the order of {local address known, STREAM NEW arrives, circuit
BUILT / FAILED} for two concurrent connections plus an unrelated stream.
"""
from zope.interface import implementer
from vlib import prelude
from vlib.api import cond, assume, reached, R
from vlib import api, fakes
from vlib.ref_tor import TorModel, CONSENSUS, NC

prelude.install()
from twisted.python.failure import Failure  # noqa: E402
from twisted.internet import defer  # noqa: E402
from twisted.internet.interfaces import IReactorCore, IStreamClientEndpoint  # noqa: E402
from twisted.internet.address import IPv4Address  # noqa: E402
from txtorcon.torstate import TorState  # noqa: E402
from txtorcon.circuit import Circuit, TorCircuitEndpoint  # noqa: E402
import txtorcon.circuit as circuit_mod  # noqa: E402
from txtorcon.interface import IStreamAttacher  # noqa: E402
from txtorcon.util import SingleObserver  # noqa: E402
from harness.c07_state import new_state, deliver  # noqa: E402

PROPERTY = 'C09'
ASSUMPTIONS = [
    'real TorState over a real protocol; the harness (as Tor) acknowledges every SETCONF / ATTACHSTREAM txtorcon writes with 250 OK',
    'reactor = IReactorCore double recording system event triggers',
    'via-circuit: the SOCKS leg is a fake endpoint exposing connect() and _get_address(); causality kept: a connection\'s local '
    'address is known before Tor announces its stream, and the connection is only started after its circuit is BUILT',
    'distinct connections have distinct local ports (as sockets do)',
]
BOUNDS = {'quick': {'answers': '10 (known BUILT / non-BUILT / unknown circuit, non-circuit, None, DO_NOT_ATTACH, raises, False, 0, empty string)', 'delivery': 'immediate / Deferred / coroutine', 'streams': '1..2', 'via_circuit': '2 connections + 1 unrelated stream, every causally possible complete order of 8 events (enumerated from the causality relation)'},
          'thorough': {}}
OUTSIDE = ['PriorityAttacher ordering among sub-attachers that give different answers (the statement does not define it)', 'streams first seen in a state other than NEW / NEWRESOLVE']


@implementer(IReactorCore)
class FakeReactor(object):
    running = True

    def __init__(self):
        self.triggers = []

    def addSystemEventTrigger(self, *a, **kw):
        self.triggers.append(a)
        return a

    def removeSystemEventTrigger(self, t):
        self.triggers.remove(t)

    def callWhenRunning(self, f, *a, **kw):
        f(*a, **kw)

    def resolve(self, *a, **kw):
        raise NotImplementedError

    def run(self):
        pass

    def stop(self):
        pass

    def crash(self):
        pass

    def iterate(self, delay=0):
        pass

    def fireSystemEvent(self, e):
        pass


class Pump(object):
    """Tor's side of the control connection: acknowledges complete command lines"""

    def __init__(self, p, t):
        self.p = p
        self.t = t
        self.answered = 0
        self.lines = []

    def run(self):
        while True:
            lines = b''.join(self.t.chunks).split(b'\r\n')[:-1]
            if self.answered >= len(lines):
                return
            ln = lines[self.answered].decode('ascii')
            self.answered += 1
            if ln.startswith('GETINFO ip-to-country/'):
                # GeoIP look-ups that txtorcon's own log statements trigger when they format a relay (only seen by the unstripped
                # replay pass); answered, not part of what the property talks about
                self.p.lineReceived(('250-' + ln[8:] + '=??').encode('ascii'))
                self.p.lineReceived(b'250 OK')
                continue
            self.lines.append(ln)
            self.p.lineReceived(b'250 OK')

    def attach_lines(self, sid):
        return [ln for ln in self.lines if ln.startswith('ATTACHSTREAM %d ' % sid) or ln == 'ATTACHSTREAM %d' % sid]


@implementer(IStreamAttacher)
class Att(object):
    def __init__(self, world):
        self.w = world
        self.calls = []
        self.pending = []

    def attach_stream(self, stream, circuits):
        self.calls.append(stream.id)
        w = self.w
        ans = w.answer
        if ans == 6:
            raise RuntimeError('attacher raises')
        val = {0: w.built, 1: w.unbuilt, 2: w.foreign, 3: 'not a circuit', 4: None, 5: TorState.DO_NOT_ATTACH,
               7: False, 8: 0, 9: '', 10: w.guardwait}[ans]     # 7..9: invalid answers that happen to be falsy; 10: a known circuit in GUARD_WAIT
        if w.mode == 0:
            return val
        if w.mode == 1:
            d = defer.Deferred()
            self.pending.append((d, val))
            return d

        async def co():
            return val
        return co()

    def attach_stream_failure(self, stream, fail):
        pass



class EqAtt(Att):
    """attachers that compare by value (dataclass-style): two distinct instances are equal, yet they are different attachers"""

    def __eq__(self, other):
        return isinstance(other, EqAtt)

    def __ne__(self, other):
        return not isinstance(other, EqAtt)

    def __hash__(self):
        return 17


class W(object):
    pass


def _answers(answer, mode, exit_target, two, later, resolve=False):
    w = W()
    w.answer, w.mode = answer, mode
    state, p, t = new_state()
    pump = Pump(p, t)
    errors = []
    state._attacher_error = lambda f: errors.append(f) or None
    model = TorModel()
    with api.no_tracing():
        for ev in (0, 1, 3, NC):          # circuit 1 BUILT, circuit 2 LAUNCHED
            kind, payload = model.apply(ev)
            deliver(state, kind, payload)
        w.built = state.circuits[1]
        w.unbuilt = state.circuits[2]
        state._circuit_update('3 GUARD_WAIT %s PURPOSE=GENERAL' % ('$' + 'A' * 40 + '~relaya'))
        w.guardwait = state.circuits[3]
        w.foreign = Circuit(state)
        w.foreign.id = 77
        w.foreign.state = 'BUILT'
    att = EqAtt(w)
    reactor = FakeReactor()
    try:
        state.set_attacher(att, reactor)
        pump.run()
        if pump.lines != ['SETCONF __LeaveStreamsUnattached=1']:
            return R('installing-attacher-did-not-set-LeaveStreamsUnattached=1', '%r', pump.lines)
        sids = [1, 2] if two else [1]
        for sid in sids:
            host = ('www.s%d.example.%s.exit' % (sid, 'relayb') if exit_target else 'www.s%d.example' % sid)
            if resolve:
                # a DNS request made through Tor: the stream's first event is NEWRESOLVE; it waits for a decision like any other
                state._stream_update('%d NEWRESOLVE 0 %s:0 PURPOSE=DNS_REQUEST' % (sid, host))
            else:
                state._stream_update('%d NEW 0 %s:80 SOURCE_ADDR=127.0.0.1:%d PURPOSE=USER' % (sid, host, 4000 + sid))
            pump.run()
        if later:
            # more events for the same streams must not trigger another decision
            state._stream_update('1 REMAP 0 10.0.0.1:80 SOURCE=CACHE')
            pump.run()
        for d, val in att.pending:
            d.callback(val)
        pump.run()
        if later:
            state._stream_update('1 SENTCONNECT 1 www.s1.example:80')
            pump.run()
        for sid in sids:
            got = pump.attach_lines(sid)
            if exit_target:
                if att.calls:
                    return R('attacher-consulted-for-exit-target')
                want = []
            else:
                if att.calls.count(sid) != 1:
                    return R('attacher-not-consulted-exactly-once', 'stream %d: %d times', sid, att.calls.count(sid))
                want = {0: ['ATTACHSTREAM %d 1' % sid], 4: ['ATTACHSTREAM %d 0' % sid]}.get(answer, [])
            if got != want:
                return R('wrong-attachment-decision-sent', 'stream %d answer %d mode %d: sent %r want %r', sid, answer, mode, got, want)
        if not exit_target and answer in (1, 2, 3, 6, 7, 8, 9, 10):
            if len(errors) != len(sids):
                return R('invalid-attacher-answer-not-reported', 'answer %d: %d reports for %d streams', answer, len(errors), len(sids))
        elif errors:
            return R('spurious-attacher-error-report', '%r', errors[0])
        # a second, different attacher is refused; the same one is a no-op; None removes it
        try:
            state.set_attacher(EqAtt(w), reactor)      # a different attacher, even though it compares equal
            return R('second-attacher-accepted')
        except RuntimeError:
            pass
        n = len(pump.lines)
        state.set_attacher(att, reactor)
        pump.run()
        if len(pump.lines) != n:
            return R('re-installing-the-same-attacher-sent-a-command')
        state.set_attacher(None, reactor)
        pump.run()
        if pump.lines[n:] != ['SETCONF __LeaveStreamsUnattached=0']:
            return R('removing-attacher-did-not-reset-LeaveStreamsUnattached', '%r', pump.lines[n:])
    except Exception as e:
        return R('exception', '%s: %s', type(e).__name__, e)
    reached()
    return ''


@cond(quick=dict(parts=[{'answer': a} for a in range(11)], budget=100))
def c09_answers(answer: int, mode: int, exit_target: bool, two: bool, later: bool, resolve: bool) -> str:
    """attacher answer kind x delivery mode x stream kind (.exit target / ordinary / DNS request) x one/two streams x later events of the same stream"""
    mode = api.pick(mode, 0, 2)
    if resolve:
        assume(not exit_target and not later)
    return _answers(answer, mode, True if exit_target else False, True if two else False, True if later else False, True if resolve else False)


def _priority(nbefore, nafter, nremoved, answer, resolve, other_first):
    """a PriorityAttacher in the attacher slot: installed with `nbefore` sub-attachers, `nafter` more added and `nremoved`
    removed afterwards; the first remaining sub-attacher gives answer 0 (a BUILT circuit) / 4 (no preference) / 5 (DO_NOT_ATTACH)"""
    from txtorcon.attacher import PriorityAttacher
    w = W()
    w.answer, w.mode = answer, 0
    state, p, t = new_state()
    pump = Pump(p, t)
    errors = []
    state._attacher_error = lambda f: errors.append(f) or None
    model = TorModel()
    with api.no_tracing():
        for ev in (0, 1, 3):
            kind, payload = model.apply(ev)
            deliver(state, kind, payload)
        w.built = state.circuits[1]
        w.unbuilt = w.foreign = w.guardwait = None
    reactor = FakeReactor()
    try:
        if other_first:
            # another attacher already holds the slot: the composite is refused like any other attacher
            first = Att(w)
            state.set_attacher(first, reactor)
            pump.run()
            try:
                state.set_attacher(PriorityAttacher(), reactor)
                return R('second-attacher-accepted', 'an empty PriorityAttacher replaced the installed attacher: %r', pump.lines)
            except RuntimeError:
                pass
            pump.run()
            if pump.lines != ['SETCONF __LeaveStreamsUnattached=1']:
                return R('refused-attacher-changed-tor-configuration', '%r', pump.lines)
            reached()
            return ''
        pa = PriorityAttacher()
        subs = []
        for _ in range(nbefore):
            a = Att(w)
            subs.append(a)
            pa.add_attacher(a)
        state.set_attacher(pa, reactor)
        pump.run()
        if pump.lines != ['SETCONF __LeaveStreamsUnattached=1']:
            return R('installing-attacher-did-not-set-LeaveStreamsUnattached=1', 'PriorityAttacher with %d sub-attachers: %r', nbefore, pump.lines)
        for _ in range(nafter):
            a = Att(w)
            subs.append(a)
            pa.add_attacher(a)
        for a in subs[:nremoved]:
            pa.remove_attacher(a)
        live = subs[nremoved:]
        if resolve:
            state._stream_update('1 NEWRESOLVE 0 www.s1.example:0 PURPOSE=DNS_REQUEST')
        else:
            state._stream_update('1 NEW 0 www.s1.example:80 SOURCE_ADDR=127.0.0.1:4001 PURPOSE=USER')
        pump.run()
        got = pump.attach_lines(1)
        for a in subs[:nremoved]:
            if a.calls:
                return R('removed-sub-attacher-consulted')
        if live:
            if live[0].calls != [1]:
                return R('attacher-not-consulted-exactly-once', 'first sub-attacher calls %r', live[0].calls)
            # answer 4 (None) passes the question on to the next sub-attacher (all give the same answer here)
            want = {0: ['ATTACHSTREAM 1 1'], 4: ['ATTACHSTREAM 1 0'], 5: []}[answer]
        else:
            want = ['ATTACHSTREAM 1 0']       # nobody has a preference: Tor chooses
        if got != want:
            return R('wrong-attachment-decision-sent', 'PriorityAttacher %d+%d-%d answer %d: sent %r want %r', nbefore, nafter, nremoved, answer, got, want)
        if errors:
            return R('spurious-attacher-error-report', '%r', errors[0])
        n = len(pump.lines)
        state.set_attacher(None, reactor)
        pump.run()
        if pump.lines[n:] != ['SETCONF __LeaveStreamsUnattached=0']:
            return R('removing-attacher-did-not-reset-LeaveStreamsUnattached', '%r', pump.lines[n:])
    except Exception as e:
        return R('exception', '%s: %s', type(e).__name__, e)
    reached()
    return ''


@cond(quick=dict(parts=[{'answer': a} for a in (0, 4, 5)], budget=100))
def c09_priority(answer: int, nbefore: int, nafter: int, nremoved: int, resolve: bool, other_first: bool) -> str:
    """the composite PriorityAttacher as the installed attacher: empty or populated at installation, sub-attachers added / removed later"""
    nbefore = api.pick(nbefore, 0, 2)
    nafter = api.pick(nafter, 0, 2)
    nremoved = api.pick(nremoved, 0, 2)
    assume(nremoved <= nbefore + nafter)
    if other_first:
        assume(nbefore == 0 and nafter == 0 and nremoved == 0 and not resolve)
    with api.no_tracing():
        return _priority(nbefore, nafter, nremoved, answer, True if resolve else False, True if other_first else False)


# ------------------------------------------------------------------ via-circuit
@implementer(IStreamClientEndpoint)
class FakeTargetEndpoint(object):
    """stands in for TorClientEndpoint: connect() and _get_address()"""

    def __init__(self):
        self._addr = SingleObserver()
        self.connect_d = None
        self.connected = 0

    def _get_address(self):
        return self._addr.when_fired()

    def connect(self, factory):
        self.connected += 1
        self.connect_d = defer.Deferred()
        return self.connect_d


PORTS = {1: 5001, 2: 5002, 3: 5003}


A1, N1, B2, A2, N2, NU, F2, S1, S2 = range(9)
_NAMES = ['A1', 'N1', 'B2', 'A2', 'N2', 'NU', 'F2', 'S1', 'S2']


def _causal_orders():
    """every complete order of the via-circuit events that causality allows:
    A_i (local address known) before N_i (Tor announces the stream); connection 2 only starts after B2
    (so A2, N2, S2 follow B2); after F2 connection 2 never starts; S_i = the SOCKS leg of connection i completes"""
    out = []

    def rec(seq, done):
        cands = []
        if A1 not in done:
            cands.append(A1)
        if A1 in done and N1 not in done:
            cands.append(N1)
        if S1 not in done:
            cands.append(S1)
        if NU not in done:
            cands.append(NU)
        if B2 not in done and F2 not in done:
            cands += [B2, F2]
        if B2 in done:
            if A2 not in done:
                cands.append(A2)
            if A2 in done and N2 not in done:
                cands.append(N2)
            if S2 not in done:
                cands.append(S2)
        if not cands:
            out.append(seq)
            return
        for c in cands:
            rec(seq + [c], done | {c})
    rec([], frozenset())
    return out


ORDERS = _causal_orders()


def _via(order, late_ack=False):
    """order: a complete causal order over A1 N1 S1 NU B2|F2 A2 N2 S2 (see _causal_orders);
    late_ack: Tor's acknowledgement of the attacher's SETCONF arrives only after both connect() calls were made"""
    prelude.reset_module_state()
    circuit_mod._get_circuit_attacher.attacher = None
    state, p, t = new_state()
    pump = Pump(p, t)
    errors = []
    state._attacher_error = lambda f: errors.append(f) or None
    model = TorModel()
    for ev in (0, 1, 3, NC, NC + 1):          # circuit 1 BUILT, circuit 2 EXTENDED
        kind, payload = model.apply(ev)
        deliver(state, kind, payload)
    reactor = FakeReactor()
    eps = {1: FakeTargetEndpoint(), 2: FakeTargetEndpoint()}
    outs = {}
    done = set()
    try:
        for i in (1, 2):
            outs[i] = fakes.Outcome(TorCircuitEndpoint(reactor, state, state.circuits[i], eps[i]).connect(object()))
            if not late_ack:
                pump.run()
        pump.run()
        if [ln for ln in pump.lines if ln.startswith('SETCONF')] != ['SETCONF __LeaveStreamsUnattached=1']:
            return R('attacher-installation-commands-wrong', '%r', pump.lines)
        for code in order:
            done.add(code)
            if code in (A1, A2):
                i = 1 if code == A1 else 2
                if eps[i].connected != 1:
                    return R('underlying-connect-not-started-once-circuit-built', 'connection %d: %d connects (order %r)', i, eps[i].connected, order)
                eps[i]._addr.fire(IPv4Address('TCP', '127.0.0.1', PORTS[i]))
            elif code in (N1, N2):
                i = 1 if code == N1 else 2
                state._stream_update('%d NEW 0 www.c%d.example:80 SOURCE_ADDR=127.0.0.1:%d PURPOSE=USER' % (10 + i, i, PORTS[i]))
            elif code == NU:
                state._stream_update('13 NEW 0 www.unrelated.example:80 SOURCE_ADDR=127.0.0.1:%d PURPOSE=USER' % PORTS[3])
                # ... and one from another host that happens to use the same port number as connection 1
                state._stream_update('15 NEW 0 www.elsewhere.example:80 SOURCE_ADDR=10.0.0.5:%d PURPOSE=USER' % PORTS[1])
            elif code in (B2, F2):
                kind, payload = model.apply(NC + (3 if code == B2 else 5))
                deliver(state, kind, payload)
            else:
                i = 1 if code == S1 else 2
                if eps[i].connect_d is None:
                    return R('underlying-connect-not-started-once-circuit-built', 'connection %d (order %r)', i, order)
                eps[i].connect_d.callback('proto%d' % i)
            pump.run()
            # ---- monitors after every step
            for i in (1, 2):
                sid = 10 + i
                got = pump.attach_lines(sid)
                if (N1 if i == 1 else N2) in done:
                    if got != ['ATTACHSTREAM %d %d' % (sid, i)]:
                        return R('via-circuit-stream-not-attached-to-its-circuit', 'connection %d: %r (order %r)', i, got, [_NAMES[c] for c in order])
                elif got:
                    return R('attach-decision-before-stream-announced')
                o = outs[i]
                if o.fired > 1:
                    return R('connect-fired-twice')
                complete = (N1 if i == 1 else N2) in done and (S1 if i == 1 else S2) in done
                if o.ok and not complete:
                    return R('connect-succeeded-before-attached-and-connected', 'connection %d order %r', i, [_NAMES[c] for c in order])
                if complete and o.ok != 1:
                    return R('connect-not-completed-after-attach-and-socks-success', 'connection %d order %r: ok=%d err=%d %r', i,
                             [_NAMES[c] for c in order], o.ok, o.err, o.exc())
            if NU in done and pump.attach_lines(13) != ['ATTACHSTREAM 13 0']:
                return R('unrelated-stream-captured-or-undecided', '%r (order %r)', pump.attach_lines(13), [_NAMES[c] for c in order])
            if NU in done and pump.attach_lines(15) != ['ATTACHSTREAM 15 0']:
                return R('unrelated-stream-captured-or-undecided', 'same port, other source address: %r (order %r)', pump.attach_lines(15), [_NAMES[c] for c in order])
            if F2 in done and outs[2].err != 1:
                return R('connect-did-not-fail-although-its-circuit-failed')
            # no SOCKS connection is opened on behalf of a circuit that is not (or never gets) BUILT: its stream could only be
            # attached somewhere else
            if B2 not in done and eps[2].connected:
                return R('underlying-connect-started-before-its-circuit-was-built', 'order %r', [_NAMES[c] for c in order])
        if errors:
            return R('attacher-error-reported', '%r', errors[0])
    except Exception as e:
        return R('exception', '%s: %s', type(e).__name__, e)
    reached()
    return ''


_NP = 16
_CH = (len(ORDERS) + _NP - 1) // _NP


@cond(quick=dict(parts=[{'part': i} for i in range(_NP)], budget=150))
def c09_via_circuit(k: int, part: int, late_ack: bool) -> str:
    """every causally possible complete order (%d of them) of the via-circuit events for two concurrent connections and an unrelated stream"""
    lo = part * _CH
    hi = min(len(ORDERS), lo + _CH) - 1
    k = api.pick(k, lo, hi)
    late_ack = True if late_ack else False
    with api.no_tracing():
        return _via(ORDERS[k], late_ack)


# ------------------------------------------------------------------ via-circuit, second family: the circuit closes, the port is re-used
B, A, X, N, NR, S = range(6)
_N2 = ['B2', 'A2', 'X2', 'N2', 'NR', 'S2']


def _orders2():
    """connection 2 only: B (circuit 2 BUILT) first; A (address known) and X (circuit 2 CLOSED) and S (SOCKS leg done) after B;
    N (Tor announces the stream) after A; NR (a later, unrelated stream from the same local port) after N"""
    out = []

    def rec(seq, done):
        c = []
        if B not in done:
            c.append(B)
        else:
            for e in (A, X, S):
                if e not in done:
                    c.append(e)
            if A in done and N not in done:
                c.append(N)
            if N in done and NR not in done:
                c.append(NR)
        if not c:
            out.append(seq)
            return
        for e in c:
            rec(seq + [e], done | {e})
    rec([], frozenset())
    return out


ORDERS2 = _orders2()


def _via2(order):
    prelude.reset_module_state()
    circuit_mod._get_circuit_attacher.attacher = None
    state, p, t = new_state()
    pump = Pump(p, t)
    errors = []
    state._attacher_error = lambda f: errors.append(f) or None
    model = TorModel()
    for ev in (0, 1, 3, NC, NC + 1):
        kind, payload = model.apply(ev)
        deliver(state, kind, payload)
    reactor = FakeReactor()
    ep = FakeTargetEndpoint()
    done = []
    try:
        out = fakes.Outcome(TorCircuitEndpoint(reactor, state, state.circuits[2], ep).connect(object()))
        pump.run()
        for code in order:
            closed_before_announce = X in done and N not in done
            done.append(code)
            if code == B:
                kind, payload = model.apply(NC + 3)
                deliver(state, kind, payload)
            elif code == A:
                if ep.connected != 1:
                    return R('underlying-connect-not-started-once-circuit-built')
                ep._addr.fire(IPv4Address('TCP', '127.0.0.1', PORTS[2]))
            elif code == X:
                kind, payload = model.apply(NC + 4)
                deliver(state, kind, payload)
            elif code == N:
                state._stream_update('12 NEW 0 www.c2.example:80 SOURCE_ADDR=127.0.0.1:%d PURPOSE=USER' % PORTS[2])
            elif code == NR:
                state._stream_update('12 CLOSED 0 www.c2.example:80 REASON=DONE')
                state._stream_update('14 NEW 0 www.later.example:80 SOURCE_ADDR=127.0.0.1:%d PURPOSE=USER' % PORTS[2])
            else:
                if ep.connect_d is None:
                    return R('underlying-connect-not-started-once-circuit-built')
                ep.connect_d.callback('proto2')
            pump.run()
            if out.fired > 1:
                return R('connect-fired-twice')
            if N in done:
                want = ['ATTACHSTREAM 12 0'] if (X in done and done.index(X) < done.index(N)) else ['ATTACHSTREAM 12 2']
                if pump.attach_lines(12) != want:
                    return R('via-circuit-stream-decision-wrong', 'order %r: sent %r want %r', [_N2[c] for c in done], pump.attach_lines(12), want)
                if X in done and done.index(X) < done.index(N):
                    if out.ok:
                        return R('connect-succeeded-although-its-circuit-closed-first', 'order %r', [_N2[c] for c in done])
                    if S in done and out.err != 1:       # (the failure surfaces once the underlying connect has resolved)
                        return R('connect-did-not-fail-although-its-circuit-closed-first', 'order %r', [_N2[c] for c in done])
            if NR in done and pump.attach_lines(14) != ['ATTACHSTREAM 14 0']:
                return R('unrelated-stream-captured-or-undecided', 'a later stream from the re-used local port: %r (order %r)', pump.attach_lines(14), [_N2[c] for c in done])
    except Exception as e:
        return R('exception', '%s: %s (order %r)', type(e).__name__, e, [_N2[c] for c in done])
    reached()
    return ''


# third family: the connection's SOCKS leg fails before Tor ever announces a stream for it; the local port is re-used later
SF, NRF = 6, 7
_N3 = ['B2', 'A2', 'X2', '-', '-', '-', 'SF2', 'NRF']


def _orders3():
    out = []

    def rec(seq, done):
        c = []
        if B not in done:
            c.append(B)
        else:
            for e in (A, X, SF):
                if e not in done:
                    c.append(e)
            if A in done and SF in done and NRF not in done:
                c.append(NRF)
        if not c:
            out.append(seq)
            return
        for e in c:
            rec(seq + [e], done | {e})
    rec([], frozenset())
    return out


ORDERS3 = _orders3()


def _via3(order):
    prelude.reset_module_state()
    circuit_mod._get_circuit_attacher.attacher = None
    state, p, t = new_state()
    pump = Pump(p, t)
    errors = []
    state._attacher_error = lambda f: errors.append(f) or None
    model = TorModel()
    for ev in (0, 1, 3, NC, NC + 1):
        kind, payload = model.apply(ev)
        deliver(state, kind, payload)
    reactor = FakeReactor()
    ep = FakeTargetEndpoint()
    done = []
    try:
        out = fakes.Outcome(TorCircuitEndpoint(reactor, state, state.circuits[2], ep).connect(object()))
        pump.run()
        for code in order:
            done.append(code)
            if code == B:
                kind, payload = model.apply(NC + 3)
                deliver(state, kind, payload)
            elif code == A:
                if ep.connected != 1:
                    return R('underlying-connect-not-started-once-circuit-built')
                ep._addr.fire(IPv4Address('TCP', '127.0.0.1', PORTS[2]))
            elif code == X:
                kind, payload = model.apply(NC + 4)
                deliver(state, kind, payload)
            elif code == SF:
                if ep.connect_d is None:
                    return R('underlying-connect-not-started-once-circuit-built')
                ep.connect_d.errback(Failure(ConnectionRefusedError('SOCKS leg failed')))
            else:
                # somebody else's connection to Tor's SOCKS port, from the local port the failed connection had used
                state._stream_update('14 NEW 0 www.later.example:80 SOURCE_ADDR=127.0.0.1:%d PURPOSE=USER' % PORTS[2])
            pump.run()
            if out.fired > 1:
                return R('connect-fired-twice')
            if out.ok:
                return R('connect-succeeded-although-its-socks-leg-failed')
            if SF in done and out.err != 1:
                return R('connect-did-not-fail-although-its-socks-leg-failed', 'order %r', [_N3[c] for c in done])
            if NRF in done and pump.attach_lines(14) != ['ATTACHSTREAM 14 0']:
                return R('unrelated-stream-captured-or-undecided', 'a later stream from the local port of a failed connection: %r (order %r)',
                         pump.attach_lines(14), [_N3[c] for c in done])
    except Exception as e:
        return R('exception', '%s: %s (order %r)', type(e).__name__, e, [_N3[c] for c in done])
    reached()
    return ''


@cond(quick=dict(budget=150))
def c09_via_circuit_failed_leg(k: int) -> str:
    """one via-circuit connection whose SOCKS leg fails before Tor announces any stream for it (address known before or after, circuit
    closing or not), then an unrelated stream from the same local port: every causal order"""
    k = api.pick(k, 0, len(ORDERS3) - 1)
    with api.no_tracing():
        return _via3(ORDERS3[k])


@cond(quick=dict(budget=150))
def c09_via_circuit_closing(k: int) -> str:
    """one via-circuit connection whose circuit closes at any point, and a later unrelated stream that re-uses its local port:
    every causal order of {built, address known, circuit closed, stream announced, later stream, SOCKS done}"""
    k = api.pick(k, 0, len(ORDERS2) - 1)
    with api.no_tracing():
        return _via2(ORDERS2[k])
