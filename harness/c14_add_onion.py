"""C14 -- ADD_ONION carries exactly the requested service; key custody follows the request.

Real code: onion._add_ephemeral_service, _validate_ports/_validate_ports_low_level/_validate_single_port_string,
EphemeralOnionService.create/remove, EphemeralAuthenticatedOnionService.create/remove, Tor.create_onion_service, on a TorConfig bootstrapped
against SimTor through the real protocol.  Symbolic: version, key kind and the key blob's characters, detach /
single-hop / discard, basic-auth clients, the port mappings and their port numbers.
Oracle: an independent ADD_ONION argument parser (control-spec 3.27) over the line that reached Tor.
"""
from vlib import prelude
from vlib.api import cond, assume, reached, R
from vlib import api, fakes
from harness.c11_config_view import make_world, bootstrap
from harness.c10_config_save import INITIAL

prelude.install()
from twisted.internet import defer  # noqa: E402
import txtorcon.onion as onion_mod  # noqa: E402
from txtorcon.onion import EphemeralOnionService, EphemeralAuthenticatedOnionService, AuthBasic, DISCARD  # noqa: E402

PROPERTY = 'C14'
ASSUMPTIONS = [
    'TorConfig bootstrapped natively against SimTor; ADD_ONION answered with ServiceID, PrivateKey (unless DiscardPK or a key was supplied) and ClientAuth lines',
    'available_tcp_port (name in txtorcon.onion) returns a harness-chosen port',
    'three-valued: a key blob whose type prefix contradicts the version may be refused (nothing sent) or sent unchanged',
    'for authenticated services only the ADD_ONION line and the parsed client tokens are checked (the HS_DESC wait needs a real RSA key)',
]
BOUNDS = {'quick': {'versions': [2, 3], 'key': 'none / DISCARD / bare / prefixed / wrong-prefix, blob of <=2 chars chosen from {a 7 : = + / CR LF}',
                    'flags': 'detach x single-hop', 'auth': 'none, basic with 0..2 clients (with/without token; names of 1, 2 and 3-5 characters)', 'ports': '1..2 mappings of 4 forms (1 with a supplied key), public port 1 or 65535'},
          'thorough': {'key': 'blob of <=3 chars'}}
OUTSIDE = ['key blobs containing a space (sent unchanged, as the statement requires)', 'stealth auth (refused by txtorcon)', 'more than 2 port mappings / 2 clients']

SID = 'abcdefghijklmnop'
TORKEY = 'ED25519-V3:dG9yLWdlbmVyYXRlZA=='


def parse_add_onion(line):
    """control-spec 3.27 -> dict(key, ports[], flags set, clients[]) or None"""
    w = line.split(' ')
    if len(w) < 2 or w[0] != 'ADD_ONION':
        return None
    out = {'key': w[1], 'ports': [], 'flags': None, 'clients': []}
    for item in w[2:]:
        if item.startswith('Port='):
            out['ports'].append(item[5:])
        elif item.startswith('Flags='):
            if out['flags'] is not None:
                return None
            out['flags'] = set(item[6:].split(','))
        elif item.startswith('ClientAuth='):
            out['clients'].append(item[11:])
        else:
            return None
    if out['flags'] is None:
        out['flags'] = set()
    return out


def _blob_ok(c):
    o = ord(c)
    return (48 <= o <= 57) or (97 <= o <= 122) or c == ':' or c == '=' or c == '+' or c == '/' or c == '\r' or c == '\n'


CLIENT_NAMES = [('alice', 'bob'), ('al', 'bo'), ('a', 'b')]     # bare names of 5/3, 2 and 1 characters


def _product(version, keykind, blob, detach, single_hop, nclients, tok1, nports, form1, form2, pa, pb, same_virt=False, via_tor=False, cn=0):
    with api.no_tracing():
        p, t, tor = make_world(dict(INITIAL), True, {})
        p._set_valid_events('CONF_CHANGED HS_DESC CIRC STREAM')
        cfg, out = bootstrap(p, tor)
        if out.ok != 1:
            return 'harness: bootstrap failed %r' % (out.exc(),)
    onion_mod.available_tcp_port = lambda reactor: defer.succeed(4242)
    prefix = 'RSA1024:' if version == 2 else 'ED25519-V3:'
    wrong = 'ED25519-V3:' if version == 2 else 'RSA1024:'
    if keykind == 0:
        key, want_key = None, ('NEW:BEST' if version == 2 else 'NEW:ED25519-V3')
    elif keykind == 1:
        key, want_key = DISCARD, ('NEW:BEST' if version == 2 else 'NEW:ED25519-V3')
    elif keykind == 2:
        key = blob
        want_key = blob if ':' in blob else prefix + blob
    elif keykind == 3:
        key, want_key = prefix + blob, prefix + blob
    else:
        key, want_key = wrong + blob, wrong + blob
    has_newline = keykind >= 2 and ('\r' in blob or '\n' in blob)
    if keykind == 2 and blob == '':
        key, want_key = None, ('NEW:BEST' if version == 2 else 'NEW:ED25519-V3')     # an empty key means "none"

    def mapping(form, a, b):
        if form == 0:
            return a, '%d,127.0.0.1:4242' % a
        if form == 1:
            return (a, b), '%d,127.0.0.1:%d' % (a, b)
        if form == 2:
            return (a, 'unix:/var/run/sock'), '%d,unix:/var/run/sock' % a
        return '%d 127.0.0.1:%d' % (a, b), '%d,127.0.0.1:%d' % (a, b)

    ports, want_ports = [], []
    for (f, a, b) in [(form1, pa, pb), (form2, pa if same_virt else pb, pb + 1 if same_virt else pa)][:nports]:
        m, wp = mapping(f, a, b)
        ports.append(m)
        want_ports.append(wp)
    n1, n2 = CLIENT_NAMES[cn]
    clients = [(n1, 'dG9rZW4x') if tok1 else n1, n2][:max(nclients, 0)]
    want_clients = [(n1 + ':dG9rZW4x' if tok1 else n1), n2][:max(nclients, 0)]
    want_flags = set()
    if detach:
        want_flags.add('Detach')
    if keykind == 1:
        want_flags.add('DiscardPK')
    if single_hop:
        want_flags.add('NonAnonymous')
    if nclients >= 0:
        want_flags.add('BasicAuth')

    seen = {'svc': None}

    def handler(ln):
        if ln.startswith('ADD_ONION'):
            d = parse_add_onion(ln)
            rep = ['250-ServiceID=' + SID]
            if d is not None and d['key'].startswith('NEW:') and 'DiscardPK' not in d['flags']:
                rep.append('250-PrivateKey=' + ('RSA1024:dG9yLXJzYQ==' if d['key'] == 'NEW:BEST' else TORKEY))
            if d is not None:
                for c in d['clients']:
                    if ':' not in c:
                        rep.append('250-ClientAuth=%s:dG9yLXRva2Vu' % c)
            rep.append('250 OK')
            return rep
        return ['250 OK']
    tor.onion_handler = handler

    refused = None
    o = None
    try:
        if nclients >= 0:
            dd = EphemeralAuthenticatedOnionService.create(object(), cfg, ports, detach=detach, private_key=key, version=version,
                                                           auth=AuthBasic(clients), single_hop=single_hop)
        elif via_tor:
            from txtorcon.controller import Tor
            import txtorcon.controller as controller_mod
            controller_mod.available_tcp_port = onion_mod.available_tcp_port
            dd = Tor(object(), p, _tor_config=cfg).create_onion_service(ports, private_key=key, version=version,
                                                                      single_hop=single_hop, detach=detach)
        else:
            dd = EphemeralOnionService.create(object(), cfg, ports, detach=detach, private_key=key, version=version, single_hop=single_hop)
        o = fakes.Outcome(dd)
        tor.pump()
    except Exception as e:
        refused = e
    adds = [ln for ln in tor.lines if ln.startswith('ADD_ONION')]
    if o is not None and o.err:
        refused = o.exc()
    if has_newline:
        if adds:
            return R('ADD_ONION-sent-although-key-contains-a-line-break', '%r', adds)
        if refused is None:
            return R('key-with-line-break-not-rejected')
        reached()
        return ''
    if (keykind == 4 or (keykind == 2 and ':' in blob)) and refused is not None and not adds:
        reached()
        return ''          # three-valued: a key whose type prefix contradicts the version may be refused
    if refused is not None:
        return R('valid-request-refused', 'version %d key kind %d ports %r: %r', version, keykind, ports, refused)
    if len(adds) != 1:
        return R('not-exactly-one-ADD_ONION', '%r', adds)
    d = parse_add_onion(adds[0])
    if d is None:
        return R('ADD_ONION-not-parseable', '%r', adds[0])
    if d['key'] != want_key:
        return R('key-specifier-wrong', 'sent %r want %r', d['key'], want_key)
    if d['ports'] != want_ports:
        return R('port-mappings-wrong', 'sent %r want %r', d['ports'], want_ports)
    if d['flags'] != want_flags:
        return R('flags-wrong', 'sent %r want %r', sorted(d['flags']), sorted(want_flags))
    if d['clients'] != want_clients:
        return R('client-auth-entries-wrong', 'sent %r want %r', d['clients'], want_clients)
    # the service object
    svc = None
    for s in cfg.EphemeralOnionServices:
        if getattr(s, '_hostname', None) is not None or True:
            svc = s
    if svc is None or svc.hostname != SID + '.onion':
        return R('service-address-is-not-the-one-tor-returned', '%r', getattr(svc, 'hostname', None))
    pk = svc.private_key
    if keykind == 1:
        if pk is not None and pk is not DISCARD:
            return R('key-stored-although-discard-requested', '%r', pk)
    elif keykind == 0 or (keykind == 2 and blob == ''):
        if pk not in ('RSA1024:dG9yLXJzYQ==', TORKEY):
            return R('generated-key-not-retained', '%r', pk)
    elif pk != want_key:
        return R('supplied-key-not-kept', '%r vs %r', pk, want_key)
    if nclients >= 0:
        names = sorted(svc.client_names())
        if names != sorted([n1, n2][:nclients]):
            return R('clients-of-service-wrong', '%r', names)
        for nm in names:
            tokn = svc.get_client(nm).auth_token
            wantt = 'dG9rZW4x' if (nm == n1 and tok1) else 'dG9yLXRva2Vu'
            if tokn != wantt:
                return R('client-token-wrong', '%s: %r want %r', nm, tokn, wantt)
    else:
        # complete the descriptor wait, then remove the service
        p.lineReceived(('650 HS_DESC UPLOAD %s UNKNOWN $%s~d x' % (SID, 'A' * 40)).encode('ascii'))
        p.lineReceived(('650 HS_DESC UPLOADED %s UNKNOWN $%s~d' % (SID, 'A' * 40)).encode('ascii'))
        tor.pump()
        if o.ok != 1 or o.value is not svc:
            return R('create-did-not-complete-with-the-service', 'ok=%d err=%d %r', o.ok, o.err, o.exc())
    n = len(tor.lines)
    r = fakes.Outcome(svc.remove())
    tor.pump()
    if tor.lines[n:] != ['DEL_ONION ' + SID]:
        return R('remove-did-not-send-DEL_ONION-for-the-address', '%r', tor.lines[n:])
    reached()
    return ''


_PARTS = [{'version': v, 'keykind': k, 'nclients': c} for v in (2, 3) for k in range(5) for c in (-1, 0, 1, 2)]
ALPHA = ['a', '7', ':', '=', '+', '/', '\r', '\n']


def _blob(n, b1, b2, b3):
    idx = [api.pick(v, 0, len(ALPHA) - 1) for v in (b1, b2, b3)[:n]]
    for v in (b1, b2, b3)[n:]:
        assume(v == 0)
    return ''.join(ALPHA[i] for i in idx)


@cond(quick=dict(parts=_PARTS, pins={'maxblob': 2}, budget=150), thorough=dict(parts=_PARTS, pins={'maxblob': 3}, budget=900))
def c14_product(version: int, keykind: int, nclients: int, nb: int, b1: int, b2: int, b3: int, detach: bool, single_hop: bool, tok1: bool,
                nports: int, form1: int, form2: int, pa: int, same_virt: bool, via_tor: bool, maxblob: int) -> str:
    """one cell class of the option product per partition (version x key kind x auth clients); the rest chosen by the solver:
    key blob over the alphabet {letter, digit, : = + / CR LF}, detach, single-hop, client token, 1-2 port mappings of 4 forms,
    boundary public ports"""
    if keykind < 2:
        assume(nb == 0)
        nb = 0
    else:
        nb = api.pick(nb, 0, maxblob)
    blob = _blob(nb, b1, b2, b3)
    if nclients < 1:
        assume(not tok1)
    if keykind >= 2:
        # with a supplied key: one mapping, no detach / single-hop / token (bounds the product; those are independent of key handling)
        assume(nports == 1 and not detach and not single_hop and not tok1)
    nports = api.pick(nports, 1, 2)
    form1 = api.pick(form1, 0, 3)
    form2 = api.pick(form2, 0, 3)
    if nports == 1:
        assume(form2 == 0 and not same_virt)
    if form2 == 0:
        assume(not same_virt)     # (an int mapping gets the same stubbed local port: would be a true duplicate)
    if maxblob < 3 and (keykind >= 2 or nports == 2):
        assume(pa == 65535)     # quick tier: the other boundary port is tried with one mapping and a generated key only
    pa = api.pick_from(pa, (1, 65535))
    if nclients >= 0 or keykind >= 2:
        assume(not via_tor)     # Tor.create_onion_service: the unauthenticated entry point, tried with generated / discarded keys
    with api.no_tracing():     # every choice is concrete by now
        return _product(version, keykind, blob, True if detach else False, True if single_hop else False, nclients, True if tok1 else False,
                        nports, form1, form2, pa, 80, True if same_virt else False, True if via_tor else False)


@cond(quick=dict(parts=[{'version': v, 'nclients': c} for v in (2, 3) for c in (1, 2)], budget=150))
def c14_client_names(version: int, nclients: int, cn: int, tok1: bool, keykind: int, detach: bool, single_hop: bool) -> str:
    """the client list with bare names of 1, 2 and 3-5 characters (a name is never split into name:token)"""
    cn = api.pick(cn, 0, len(CLIENT_NAMES) - 1)
    keykind = api.pick(keykind, 0, 1)
    with api.no_tracing():
        return _product(version, keykind, '', True if detach else False, True if single_hop else False, nclients,
                        True if tok1 else False, 1, 1, 0, 65535, 80, False, False, cn)
