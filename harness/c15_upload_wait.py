"""C15 -- onion creation completes only on this service's confirmed descriptor upload.

Real code: onion._await_descriptor_upload (closure state) as installed by _add_ephemeral_service through
EphemeralOnionService.create; the real add_event_listener/remove_event_listener/Event.got_update underneath.
Tor = SimTor (ADD_ONION reply held back until a symbolic position; SETEVENTS acknowledged).
Symbolic: the sequence of HS_DESC events (UPLOAD / UPLOADED / FAILED x own / foreign service x directory), the
position of the ADD_ONION reply among them, the waiting mode.
"""
from vlib import prelude
from vlib.api import cond, assume, reached, R, known
from vlib import api, fakes
from harness.c11_config_view import make_world, bootstrap
from harness.c10_config_save import INITIAL

prelude.install()
from txtorcon.onion import EphemeralOnionService, FilesystemOnionService  # noqa: E402

PROPERTY = 'C15'
ASSUMPTIONS = [
    'TorConfig bootstrapped natively against SimTor; the service is created through EphemeralOnionService.create (ADD_ONION) or '
    'FilesystemOnionService.create (SETCONF; a scratch directory holding a hostname file is created and removed by the check)',
    'SimTor acknowledges SETEVENTS at once and answers ADD_ONION at a symbolic position in the event sequence',
    'three-valued reference (vlib-side): only events of the service itself that arrive after the ADD_ONION reply (when its address is known) '
    'create obligations to complete / fail; safety (no completion without an own UPLOADED, no failure without an own FAILED, at most one outcome, '
    'subscription removed afterwards) is checked for every ordering',
]
BOUNDS = {'quick': {'events': '3 (own + foreign, any reply position); 5 (own only, reply first); 6 (own only, after UPLOAD to both directories)', 'directories': 2, 'services': 'own + one foreign sharing the directories', 'modes': 'first-upload and await-all'},
          'thorough': {'events': '4 (own + foreign, 2 directories, any reply position); 5 (own, 3 directories); 6 (own, 2 directories)'}}
OUTSIDE = ['more than 4 mixed / 6 own events, more than 3 directories', 'stealth-authenticated services']

OWN = 'ownserviceidaaaaaaaaaaaaaaaaaaaaaaaaaaaaaaaaaaaaaaaaaaaa'
FOREIGN = 'foreignserviceidbbbbbbbbbbbbbbbbbbbbbbbbbbbbbbbbbbbbbbbb'
KIND = ['UPLOAD', 'UPLOADED', 'FAILED']


_OWN_ADDR = [OWN]      # the address of the service under test (an authenticated service is known by its permanent id)


def _event_text(kind, own, d):
    addr = _OWN_ADDR[0] if own else FOREIGN
    hsdir = '$' + ('%X' % (10 + d)) * 40 + '~dir%d' % d
    if kind == 0:
        return 'UPLOAD %s UNKNOWN %s descid%d HSDIR_INDEX=x' % (addr, hsdir, d)
    if kind == 1:
        return 'UPLOADED %s UNKNOWN %s' % (addr, hsdir)
    # Tor gives different reasons (UPLOAD_REJECTED when the directory refused, UNEXPECTED when it could not be reached, ...)
    # and older versions none at all: the reason varies with the directory
    reason = [' REASON=UPLOAD_REJECTED', ' REASON=UNEXPECTED', ''][d % 3]
    return 'FAILED %s UNKNOWN %s descid%d%s' % (addr, hsdir, d, reason)


def _onion_handler(ln):
    if ln.startswith('ADD_ONION'):
        return ['250-ServiceID=' + OWN, '250-PrivateKey=ED25519-V3:c2VjcmV0', '250 OK']
    return ['250 OK']


def _wait(events, reply_at, await_all, ndirs, fs=False, auth=False):
    """events: list of (kind, own, dir); the reply to the creating command (ADD_ONION, or SETCONF for a filesystem service)
    is delivered before event index reply_at"""
    import shutil
    import tempfile
    hsdir = None
    if fs:
        hsdir = tempfile.mkdtemp(prefix='verif-c15-')
        with open(hsdir + '/hostname', 'w') as f:
            f.write(OWN + '.onion\n')
    try:
        _OWN_ADDR[0] = OWN
        return _wait_inner(events, reply_at, await_all, ndirs, fs, hsdir, auth)
    finally:
        _OWN_ADDR[0] = OWN
        if hsdir:
            shutil.rmtree(hsdir, ignore_errors=True)


def _wait_inner(events, reply_at, await_all, ndirs, fs, hsdir, auth=False):
    values = dict(INITIAL)
    p, t, tor = make_world(values, True, {})
    if fs:
        for nm, typ in (('HiddenServiceOptions', 'Virtual'), ('HiddenServiceDir', 'Dependent'), ('HiddenServicePort', 'Dependent'),
                        ('HiddenServiceVersion', 'Dependent')):
            tor.options[nm] = {'type': typ, 'values': None}
        p.version = '0.4.8.9'
    p._set_valid_events('CONF_CHANGED HS_DESC CIRC STREAM')
    cfg, out = bootstrap(p, tor)
    if out.ok != 1:
        return 'harness: bootstrap failed %r' % (out.exc(),)
    tor.onion_handler = _onion_handler
    if auth:
        # a version 2 service with basic client authorization: Tor names it by the permanent id of its RSA key
        from harness.c17_onion_listen import _rsa
        from txtorcon.onion import EphemeralAuthenticatedOnionService, AuthBasic
        blob, permid = _rsa()
        _OWN_ADDR[0] = permid
        tor.onion_handler = lambda ln: (['250-ServiceID=' + permid, '250-PrivateKey=RSA1024:' + blob, '250-ClientAuth=bob:dG9yLXRva2Vu', '250 OK']
                                        if ln.startswith('ADD_ONION') else ['250 OK'])
    progress = []
    held = []
    creating = 'SETCONF HiddenServiceDir' if fs else 'ADD_ONION'

    orig_answer = tor.answer

    def answer(ln):
        if ln.startswith(creating) and not held:
            held.append(ln)          # hold the reply back
            return
        orig_answer(ln)
    tor.answer = answer

    try:
        if fs:
            d = FilesystemOnionService.create(object(), cfg, hsdir, ['80 127.0.0.1:8080'], version=3, progress=lambda *a: progress.append(a),
                                              await_all_uploads=True if await_all else None)
        elif auth:
            d = EphemeralAuthenticatedOnionService.create(object(), cfg, ['80 127.0.0.1:8080'], version=2, auth=AuthBasic(['bob']),
                                                          progress=lambda *a: progress.append(a), await_all_uploads=True if await_all else None)
        else:
            d = EphemeralOnionService.create(object(), cfg, ['80 127.0.0.1:8080'], version=3, progress=lambda *a: progress.append(a),
                                             await_all_uploads=True if await_all else None)
        o = fakes.Outcome(d)
        tor.pump()
        if len(held) != 1:
            return R('creating-command-not-written', '%r', tor.lines)
        if 'HS_DESC' not in p.events:
            return R('listener-not-installed-before-the-creating-command')
        replied = False
        own_uploaded_ever = False
        own_failed_ever = False
        att, conf, failed, pend = set(), set(), set(), set()      # own events after the reply
        must = None       # 'complete' / 'fail'
        for i in range(len(events) + 1):
            if i == reply_at and not replied:
                replied = True
                orig_answer(held[0])
                tor.pump()
                if must == 'complete' and o.ok != 1:
                    return R('not-completed-although-own-upload-confirmed', 'after the late reply: events %r reply_at %d: ok=%d err=%d', events[:i], reply_at, o.ok, o.err)
                if must == 'fail' and o.err != 1:
                    return R('not-failed-although-every-own-upload-failed', 'after the late reply: events %r reply_at %d', events[:i], reply_at)
            if i == len(events):
                break
            kind, own, dr = events[i]
            if own and kind == 1:
                own_uploaded_ever = True
            if own and kind == 2:
                own_failed_ever = True
            counts = replied or fs
            if known('C15-foreign-uploaded') and (not own) and kind == 1 and counts and dr in att:
                assume(False)        # region of the listed known finding (re-checked by its witness)
            if own and counts:
                # attempt-level bookkeeping: an UPLOAD opens an attempt on that directory (again, if Tor retries it), UPLOADED / FAILED settle it
                if kind == 0:
                    att.add(dr)
                    pend.add(dr)
                elif kind == 1 and dr in att:
                    conf.add(dr)
                    pend.discard(dr)
                    if must is None and (not await_all or not pend):
                        must = 'complete'
                elif kind == 2:
                    failed.add(dr)
                    pend.discard(dr)
                    if must is None and att and not pend and not conf:
                        must = 'fail'
                    elif must is None and await_all and conf and att and not pend:
                        must = 'complete'
            was_fired = o.fired
            p.lineReceived(('650 HS_DESC ' + _event_text(kind, own, dr)).encode('ascii'))
            tor.pump()
            # ---- monitors after every event
            if o.fired > 1:
                return R('creation-fired-twice')
            if o.ok and not own_uploaded_ever:
                return R('completed-without-any-upload-confirmation-for-this-service', 'events so far %r', events[:i + 1])
            if o.err and not own_failed_ever:
                return R('failed-without-any-failed-upload-of-this-service', 'events so far %r: %r', events[:i + 1], o.exc())
            if o.ok and not replied:
                return R('completed-before-the-service-exists')
            if o.ok and not was_fired and await_all and pend:
                return R('await-all-completed-with-an-upload-still-outstanding', 'events %r reply_at %d: outstanding %r',
                         events[:i + 1], reply_at, sorted(pend))
            if must == 'complete' and replied and o.ok != 1:
                return R('not-completed-although-own-upload-confirmed', 'await_all=%s events %r reply_at %d: ok=%d err=%d', await_all, events[:i + 1], reply_at, o.ok, o.err)
            if must == 'fail' and (replied or not fs) and o.err != 1:
                return R('not-failed-although-every-own-upload-failed', 'events %r reply_at %d', events[:i + 1], reply_at)
            if o.fired:
                if 'HS_DESC' in p.events:
                    return R('event-subscription-left-after-%s' % ('completion' if o.ok else 'failure'), 'events %r', events[:i + 1])
                if tor.setevents and 'HS_DESC' in tor.setevents[-1]:
                    return R('SETEVENTS-still-lists-HS_DESC-after-outcome')
        if o.ok == 1 and not auth and (o.value.hostname != OWN + '.onion'):
            return R('wrong-hostname', '%r', o.value.hostname)
    except Exception as e:
        return R('exception', '%s: %s', type(e).__name__, e)
    reached()
    return ''


def _decode(e, ndirs):
    """0 .. 6*ndirs-1 -> (kind, own, dir)"""
    kind = e % 3
    own = (e // 3) % 2 == 0
    dr = e // 6
    return (kind, own, dr)


@cond(quick=dict(parts=[{'e1': a, 'await_all': m} for a in range(12) for m in (False, True)], budget=150))
def c15_orderings3(e1: int, e2: int, e3: int, reply_at: int, await_all: bool, fs: bool) -> str:
    """3 HS_DESC events over 2 directories x {own, foreign} x {UPLOAD, UPLOADED, FAILED}; ADD_ONION reply before event reply_at (3 = after all)"""
    evs = [_decode(e1, 2)] + [_decode(api.pick(e, 0, 11), 2) for e in (e2, e3)]
    reply_at = api.pick(reply_at, 0, 3)
    fs = True if fs else False
    with api.no_tracing():      # every choice is concrete by now
        return _wait(evs, reply_at, await_all, 2, fs)


def _decode_own(e):
    return (e % 3, True, e // 3)


@cond(quick=dict(parts=[{'e1': a, 'await_all': m} for a in (0, 3) for m in (False, True)], budget=200))
def c15_own5(e1: int, e2: int, e3: int, e4: int, e5: int, await_all: bool, fs: bool) -> str:
    """5 events of the service itself over 2 directories (first one an UPLOAD), reply before all of them: retries after a failure,
    several outstanding uploads, the deciding event being a FAILED"""
    evs = [_decode_own(e1)] + [_decode_own(api.pick(e, 0, 5)) for e in (e2, e3, e4, e5)]
    fs = True if fs else False
    with api.no_tracing():
        return _wait(evs, 0, await_all, 2, fs)


@cond(quick=dict(parts=[{'e1': a, 'await_all': m} for a in (0, 3) for m in (False, True)], budget=200))
def c15_auth4(e1: int, e2: int, e3: int, e4: int, await_all: bool) -> str:
    """an authenticated (basic auth, version 2) ephemeral service: 4 own events over 2 directories, reply first"""
    evs = [_decode_own(e1)] + [_decode_own(api.pick(e, 0, 5)) for e in (e2, e3, e4)]
    with api.no_tracing():
        return _wait(evs, 0, await_all, 2, False, True)


@cond(thorough=dict(parts=[{'e1': a, 'e2': b, 'await_all': m} for a in range(12) for b in range(12) for m in (False, True)], budget=600))
def c15_orderings4(e1: int, e2: int, e3: int, e4: int, reply_at: int, await_all: bool, fs: bool) -> str:
    """4 events over 2 directories x {own, foreign}, any reply position, ephemeral and filesystem service"""
    evs = [_decode(e1, 2), _decode(e2, 2)] + [_decode(api.pick(e, 0, 11), 2) for e in (e3, e4)]
    reply_at = api.pick(reply_at, 0, 4)
    fs = True if fs else False
    with api.no_tracing():
        return _wait(evs, reply_at, await_all, 2, fs)


def _decode_own3(e):
    return (e % 3, True, e // 3)


@cond(thorough=dict(parts=[{'e1': a, 'e2': b, 'await_all': m} for a in (0, 3, 6) for b in range(9) for m in (False, True)], budget=600))
def c15_own5_3dirs(e1: int, e2: int, e3: int, e4: int, e5: int, await_all: bool, reply_at: int) -> str:
    """5 own events over 3 directories (ephemeral service), reply before the first or the second event"""
    evs = [_decode_own3(e1), _decode_own3(e2)] + [_decode_own3(api.pick(e, 0, 8)) for e in (e3, e4, e5)]
    reply_at = api.pick(reply_at, 0, 1)
    with api.no_tracing():
        return _wait(evs, reply_at, await_all, 3, False)


@cond(quick=dict(parts=[{'e1': 0, 'e2': 3, 'await_all': m} for m in (False, True)], budget=300),
      thorough=dict(parts=[{'e1': a, 'e2': b, 'await_all': m} for a in (0, 3) for b in range(6) for m in (False, True)], budget=600))
def c15_own6(e1: int, e2: int, e3: int, e4: int, e5: int, e6: int, await_all: bool, fs: bool) -> str:
    """6 own events over 2 directories, reply first"""
    evs = [_decode_own(e1), _decode_own(e2)] + [_decode_own(api.pick(e, 0, 5)) for e in (e3, e4, e5, e6)]
    fs = True if fs else False
    with api.no_tracing():
        return _wait(evs, 0, await_all, 2, fs)
