"""C03 -- connection loss fails every unanswered command once; nothing is left pending.

Real code: TorControlProtocol.connectionLost/_maybe_issue_command/queue_command/when_disconnected,
util.SingleObserver, and (authentication state) connectionMade/_auth_failed.  Symbolic: how many
bytes of the next server line had arrived when the connection dropped, the close reason, the
number and kind of commands submitted after the loss, the number of disconnect-notification
requests before and after.  The pre-loss state is produced by a real prefix of a session.
"""
from vlib import prelude
from vlib.api import cond, assume, reached, R
from vlib import api, fakes

prelude.install()
from twisted.internet.error import ConnectionDone, ConnectionLost  # noqa: E402
from twisted.python.failure import Failure  # noqa: E402
from txtorcon.torcontrolprotocol import TorDisconnectError  # noqa: E402

PROPERTY = 'C03'
ASSUMPTIONS = [
    'protocol object real; transport = list-recording double; states 7-9 use the real makeConnection (PROTOCOLINFO / AUTHENTICATE outstanding)',
    'the partial next line is delivered through the real dataReceived so the line buffer is non-empty at the loss',
    'a disconnect notification is delivered when its Deferred fires once with the disconnect failure',
    'retry: every failing command re-submits one command from its errback (re-entrancy into queue_command during the loss)',
    'nsub: the first disconnect notification requested before the loss submits one command from inside its callback',
]
BOUNDS = {'quick': {'pre_loss_states': '13 (in-flight command already cancelled by its caller, three commands with identical text, QUIT in flight, idle, 1-3 commands plain / callback, mid-reply, mid-data-block, PROTOCOLINFO outstanding, AUTHENTICATE outstanding under NULL and password auth with a command queued behind)', 'post_loss_commands': '0..3 (plain/callback)', 'when_disconnected_requests': '0..2 before, 0..2 after',
                    'partial_line_prefix': 'prefix lengths {0,1,9,len-2,len-1} (quick), every prefix length (thorough)'},
          'thorough': {'post_loss_commands': '0..4'}}
OUTSIDE = ['a second connectionLost notification', 'more than 2 queued commands before the loss']

NEXT_LINE = b'250-partial=line\r\n'


def _is_disconnect_failure(o):
    return o.err == 1 and isinstance(o.exc(), TorDisconnectError)


def _loss(st, nbytes, clean, m, kinds, wb, wa, retry=False, nsub=False):
    p, t = fakes.new_protocol()
    outs = []
    cbl = []
    retried = []

    lazy = []        # (outcome, deferred): callers that keep the Deferred and only look at it after the loss

    def watch(d, label):
        """Outcome recorder; with retry the command's errback submits one more command (retry-on-failure).  Every second pre-loss
        command belongs to a caller that has not attached anything to its Deferred yet when the connection drops"""
        o = fakes.Outcome()
        if retry:
            def again(f):
                if label not in retried:
                    retried.append(label)
                    outs.append(fakes.Outcome(p.queue_command('GETINFO retry-of-' + label)))
                return f
            d.addErrback(again)
        elif not lost[0] and len(outs) % 2 == 1:
            lazy.append((o, d))
            return o
        o.watch(d)
        return o
    lost = [False]

    with api.no_tracing():     # concrete prefix of the session
        if st in (7, 8, 9):
            p.transport = None
            if st == 9:
                p.password_function = lambda: 'secret word'
            p.makeConnection(t)
            boot = fakes.Outcome(p.post_bootstrap)
            if st >= 8:
                # Tor advertises NULL (8: a bare AUTHENTICATE goes out) or a password (9: AUTHENTICATE "..."); the loss comes
                # while that AUTHENTICATE is outstanding, with one user command queued behind it
                p.dataReceived(b'250-PROTOCOLINFO 1\r\n250-AUTH METHODS=' + (b'NULL' if st == 8 else b'HASHEDPASSWORD') +
                               b'\r\n250-VERSION Tor="0.4.8.9"\r\n250 OK\r\n')
                if not t.value().split(b'\r\n')[-2].startswith(b'AUTHENTICATE'):
                    return 'harness: AUTHENTICATE not outstanding: %r' % (t.value(),)
                outs.append(watch(p.queue_command('GETINFO queued-behind-authenticate'), 'q'))
        else:
            boot = None
            if 1 <= st <= 6:
                outs.append(watch(p.queue_command('GETINFO a', cbl.append if st in (2, 6) else None), 'a'))
            if st in (3, 5, 6):
                outs.append(watch(p.queue_command('GETINFO b'), 'b'))
            if st == 4:
                outs.append(watch(p.queue_command('GETINFO b', cbl.append), 'b'))
                outs.append(watch(p.queue_command('GETINFO c'), 'c'))
            if st == 10:
                # three commands with the very same text: one in flight, two queued
                for lab in ('s1', 's2', 's3'):
                    outs.append(watch(p.queue_command('GETINFO same-text'), lab))
            if st == 12:
                # the caller of the in-flight command gave up on it (cancelled its Deferred); two commands are queued behind it
                d0 = p.queue_command('GETINFO given-up')
                d0.addErrback(lambda f: None)
                d0.cancel()
                outs.append(watch(p.queue_command('GETINFO behind-1'), 'b1'))
                outs.append(watch(p.queue_command('GETINFO behind-2'), 'b2'))
            if st == 11:
                # QUIT in flight (Tor hangs up without having answered), a command queued behind it
                outs.append(watch(p.quit(), 'quit'))
                outs.append(watch(p.queue_command('GETINFO after-quit'), 'aq'))
            if st == 5:
                p.dataReceived(b'250-mid=line\r\n')
            if st == 6:
                p.dataReceived(b'250+k=\r\ndata line\r\n')
    wd = []
    for k in range(wb):
        dn = p.when_disconnected()
        if nsub and k == 0:
            # the first notified party reacts by submitting a command from inside its notification
            def react(f):
                outs.append(fakes.Outcome(p.queue_command('GETINFO from-notification')))
                return f
            dn.addBoth(react)
        wd.append(fakes.Outcome(dn))
    try:
        if st >= 1:
            p.dataReceived(NEXT_LINE[:nbytes])
        before = t.value()
        p.connectionLost(Failure(ConnectionDone() if clean else ConnectionLost()))
        lost[0] = True
        for o_, d_ in lazy:
            o_.watch(d_)
        for i in range(m):
            outs.append(watch(p.queue_command('GETINFO post%d' % i, cbl.append if kinds[i] else None), 'post%d' % i))
        for _ in range(wa):
            wd.append(fakes.Outcome(p.when_disconnected()))
    except Exception as e:
        return R('exception', '%s: %s', type(e).__name__, e)
    if t.value() != before:
        return R('written-to-transport-after-loss', '%r', t.value()[len(before):])
    for i, o in enumerate(outs):
        if o.fired == 0:
            return R('command-left-pending-forever', 'command #%d of %d (state %d, %d post-loss)', i, len(outs), st, m)
        if o.fired > 1:
            return R('command-fired-twice')
        if not _is_disconnect_failure(o):
            return R('command-not-failed-with-disconnect-error', '#%d: ok=%d exc=%r', i, o.ok, o.exc())
    for i, o in enumerate(wd):
        if o.fired != 1:
            return R('disconnect-notification-fired-%d-times' % o.fired, 'request #%d (%d before, %d after)', i, wb, wa)
        if not (o.err == 1 and isinstance(o.exc(), TorDisconnectError)):
            return R('disconnect-notification-does-not-carry-the-disconnect-error', 'request #%d (%d before, %d after): ok=%d value %r', i, wb, wa, o.ok, o.value)
    if boot is not None:
        if boot.fired != 1 or boot.err != 1:
            return R('ready-notification-not-failed-once', 'ok=%d err=%d', boot.ok, boot.err)
    reached()
    return ''


NST = 13
_ST = [{'st': s} for s in range(NST)]
_STM = [{'st': s, 'm': m} for s in range(NST) for m in range(4)]
_OFFS = (0, 1, 9, len(NEXT_LINE) - 2, len(NEXT_LINE) - 1)


@cond(quick=dict(parts=_STM, budget=100))
def c03_loss(nbytes: int, clean: bool, m: int, k1: bool, k2: bool, k3: bool, wb: int, wa: int, st: int, retry: bool, nsub: bool) -> str:
    """loss in state st with a symbolic partial line (prefix lengths 0, 1, middle, all but LF, all but CRLF's LF),
    then m commands and notification requests"""
    nbytes = api.pick_from(nbytes, _OFFS)
    wb = api.pick(wb, 0, 2)
    wa = api.pick(wa, 0, 2)
    assume(0 <= m <= 3)
    if m < 3:
        assume(not k3)
    if m < 2:
        assume(not k2)
    if m < 1:
        assume(not k1)
    if wb == 0 or retry or wa != 0:
        assume(not nsub)       # (quick) the notification re-entrancy is tried without the other re-entrancy and without late requests
    return _loss(st, nbytes, clean, m, [k1, k2, k3], wb, wa, retry, nsub)


@cond(thorough=dict(parts=[{'st': s, 'm': m} for s in range(NST) for m in range(5)], budget=900))
def c03_loss4(nbytes: int, clean: bool, m: int, k1: bool, k2: bool, k3: bool, k4: bool, wb: int, wa: int, st: int, retry: bool, nsub: bool) -> str:
    """up to 4 post-loss commands"""
    nbytes = api.pick(nbytes, 0, len(NEXT_LINE) - 1)
    wb = api.pick(wb, 0, 2)
    wa = api.pick(wa, 0, 2)
    assume(0 <= m <= 4)
    if m < 4:
        assume(not k4)
    if m < 3:
        assume(not k3)
    if m < 2:
        assume(not k2)
    if m < 1:
        assume(not k1)
    if wb == 0:
        assume(not nsub)
    return _loss(st, nbytes, clean, m, [k1, k2, k3, k4], wb, wa, retry, nsub)
