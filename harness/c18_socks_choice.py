"""C18 -- choosing a SOCKS port never alters Tor's existing SOCKS listeners.

Real code: endpoints._create_socks_endpoint, torconfig._endpoint_from_socksport_line,
TorConfig.socks_endpoint/create_socks_endpoint, TorClientEndpoint.connect (fallback over 9050/9150); the real
protocol and set_conf underneath; Tor = SimTor.  Symbolic: Tor's existing SOCKSPort configuration (none with a
default, 1..2 entries of 5 forms), the requested port, and the connect outcome of each fallback port.
"""
from zope.interface import implementer
from vlib import prelude
from vlib.api import cond, assume, reached, R
from vlib import api, fakes
from harness.c11_config_view import make_world, bootstrap
from harness.c10_config_save import INITIAL

prelude.install()
from twisted.internet import defer, error  # noqa: E402
from twisted.internet.interfaces import IStreamClientEndpoint  # noqa: E402
from twisted.internet.endpoints import TCP4ClientEndpoint, UNIXClientEndpoint  # noqa: E402
from twisted.internet.testing import MemoryReactorClock  # noqa: E402
import txtorcon.endpoints as endpoints  # noqa: E402

PROPERTY = 'C18'
ASSUMPTIONS = [
    'Tor = SimTor; GETCONF SOCKSPort / __SocksPort and SETCONF travel through the real protocol and set_conf',
    'available_tcp_port (name in txtorcon.endpoints) returns a harness-chosen port',
    'fallback: the name TCP4ClientEndpoint in txtorcon.endpoints is replaced by a double whose connect() has a harness-chosen outcome',
]
BOUNDS = {'quick': {'existing': 'unset (+default, plain or with option words), 1 or 2 entries from 6 forms (incl. auto)', 'request': 'none / first word of an entry / a proper prefix of one / absent'},
          'thorough': {}}
OUTSIDE = ['more than 2 existing entries', "a lone 'SocksPort auto' seen through TorConfig (it consults Tor's __SocksPort pseudo-option, whose answer under 'auto' is not modelled; the entry is covered through _create_socks_endpoint)", 'SOCKSPort lines whose unix path contains a space']

ENTRIES = ['9050', '9050 IsolateDestAddr IsolateDestPort', '127.0.0.1:9150 IPv6Traffic', 'unix:/tmp/socks', 'unix:/tmp/socks WorldWritable',
           'auto', 'unix:/tmp/autostart/socks']       # 'auto': Tor picked the port itself; GETCONF reports the word verbatim, so the entry cannot be used to connect
DEFAULT_LINE = '9150 IPv6Traffic PreferIPv6 KeepAliveIsolateSOCKSAuth'     # a torrc-defaults SocksPort line with option words
REQUESTS = [None, '9050', '905', '9999', '127.0.0.1:9150', 'unix:/tmp/socks', '150']


def first_word(e):
    return e.split()[0]


def _target(e):
    w = first_word(e)
    if w.startswith('unix:'):
        return ('unix', w[5:])
    if ':' in w:
        h, p = w.split(':')
        return ('tcp', h, int(p))
    return ('tcp', '127.0.0.1', int(w))


def _ep_target(ep):
    if isinstance(ep, UNIXClientEndpoint):
        return ('unix', ep._path)
    if isinstance(ep, TCP4ClientEndpoint):
        return ('tcp', ep._host, ep._port)
    return ('other', repr(ep))


def _choose(existing, request, via_config, defl=False, pending_edit=False):
    """defl (only with no explicit entries): Tor's built-in default line carries option words (config/defaults and __SocksPort report it)"""
    values = dict(INITIAL)
    values['SocksPort'] = list(existing) if existing else None
    dline = DEFAULT_LINE if defl else '9050'
    values['__SocksPort'] = [dline] if not existing else None
    p, t, tor = make_world(values, True, {'SocksPort': [dline]} if (defl and not existing) else {})
    reactor = MemoryReactorClock()
    endpoints.available_tcp_port = lambda r: defer.succeed(4711)
    effective = list(existing) if existing else [dline]
    try:
        if via_config:
            cfg, out = bootstrap(p, tor)
            if out.ok != 1:
                return 'harness: bootstrap failed %r' % (out.exc(),)
            if request is None:
                assume(False)      # (None means socks_endpoint(); covered by the other entry point)
            if pending_edit:
                cfg.Nickname = 'notyetsaved'      # an unrelated edit the user has not saved yet
            n0 = len(tor.setconfs)
            if via_config == 2:
                # the synchronous TorConfig.socks_endpoint(): only ever uses what Tor already has
                usable0 = [e for e in effective if first_word(e) == request and first_word(e) != 'auto']
                try:
                    ep0 = cfg.socks_endpoint(reactor, request)
                except RuntimeError:
                    ep0 = None
                if tor.pending() or len(tor.setconfs) != n0:
                    return R('socks_endpoint-wrote-to-tor')
                if usable0:
                    if ep0 is None or _ep_target(ep0) not in [_target(e) for e in usable0]:
                        return R('endpoint-does-not-point-at-a-configured-port', 'socks_endpoint(%r) with %r -> %r', request, existing, ep0 and _ep_target(ep0))
                elif ep0 is not None:
                    return R('socks_endpoint-returned-a-port-tor-does-not-have', 'socks_endpoint(%r) with %r -> %r', request, existing, _ep_target(ep0))
                reached()
                return ''
            o = fakes.Outcome(cfg.create_socks_endpoint(reactor, request))
        else:
            n0 = 0
            o = fakes.Outcome(endpoints._create_socks_endpoint(reactor, p, request))
        for _ in range(20):
            if not tor.pump():
                break
    except Exception as e:
        return R('exception', '%s: %s', type(e).__name__, e)
    if o.ok != 1:
        return R('no-endpoint-produced', 'existing %r request %r: %r', existing, request, o.exc())
    got = _ep_target(o.value)
    sent = tor.setconfs[n0:]
    other = [ln for ln in tor.lines if not (ln.startswith('GETCONF') or ln.startswith('GETINFO') or ln.startswith('SETEVENTS') or ln.startswith('SETCONF'))]
    if other:
        return R('unexpected-command', '%r', other)
    usable = [e for e in effective if (request is None or first_word(e) == request) and first_word(e) != 'auto']
    if usable:
        if sent:
            return R('tor-configuration-changed-although-a-configured-port-was-usable', 'existing %r request %r: %r', existing, request, sent)
        if got not in [_target(e) for e in usable]:
            return R('endpoint-does-not-point-at-a-configured-port', 'existing %r request %r -> %r', existing, request, got)
    else:
        if len(sent) != 1 or sent[0] is None:
            return R('not-exactly-one-SETCONF', 'existing %r request %r: %r', existing, request, sent)
        keys = [k.lower() for k, _v in sent[0]]
        vals = [v for _k, v in sent[0]]
        new = request if request is not None else '4711'
        if any(k != 'socksport' for k in keys) and not pending_edit:
            return R('SETCONF-touches-other-options', '%r', sent[0])
        vals = [v for k, v in sent[0] if k.lower() == 'socksport']
        if vals != effective + [new]:
            return R('existing-SOCKSPort-entries-not-relisted-verbatim', 'tor had %r, SETCONF lists %r', effective, vals)
        if got != _target(new):
            return R('endpoint-does-not-point-at-the-new-port', '%r vs %r', got, _target(new))
    reached()
    return ''


_NE = len(ENTRIES)
_EX = [()] + [(a,) for a in range(_NE)] + [(a, b) for a in range(_NE) for b in range(_NE) if first_word(ENTRIES[a]) != first_word(ENTRIES[b])]


@cond(quick=dict(parts=[{'via_config': v} for v in (0, 1, 2)], budget=150))
def c18_choose(ex: int, rq: int, via_config: int, defl: bool, pending_edit: bool) -> str:
    """existing SOCKSPort configuration ex (index into the table of 0/1/2-entry configurations) x request rq, through
    _create_socks_endpoint (via_config 0), TorConfig.create_socks_endpoint (1) or the synchronous TorConfig.socks_endpoint (2)"""
    ex = api.pick(ex, 0, len(_EX) - 1)
    rq = api.pick(rq, 0, len(REQUESTS) - 1)
    if ex != 0:
        assume(not defl)
    if via_config != 0:
        # TorConfig reads a lone 'auto' SocksPort through Tor's __SocksPort pseudo-option; what Tor answers there is not modelled (OUTSIDE)
        assume([ENTRIES[i] for i in _EX[ex]] != ['auto'])
    if via_config != 1:
        assume(not pending_edit)
    with api.no_tracing():      # every choice is concrete by now
        return _choose([ENTRIES[i] for i in _EX[ex]], REQUESTS[rq], via_config, True if defl else False, True if pending_edit else False)


# ------------------------------------------------------------------ fallback
class _Outcome(object):
    pass


def _fallback(o1, o2):
    """connect outcome per fallback port: 0 success, 1 ConnectionRefusedError, 2 TimeoutError (both ConnectError), 3 RuntimeError"""
    attempts = []
    outcomes = {9050: o1, 9150: o2}

    @implementer(IStreamClientEndpoint)
    class FakeTCP(object):
        def __init__(self, reactor, host, port, *a, **kw):
            self.host, self.port = host, port

        def connect(self, factory):
            attempts.append((self.host, self.port))
            oc = outcomes.get(self.port, 3)
            if oc == 0:
                class P(object):
                    def when_done(self_inner):
                        return defer.succeed('proto-via-%d' % self.port)
                return defer.succeed(P())
            exc = {1: error.ConnectionRefusedError('refused %d' % self.port), 2: error.TimeoutError('timeout %d' % self.port),
                   3: RuntimeError('boom %d' % self.port)}[oc]
            return defer.fail(exc)
    endpoints.TCP4ClientEndpoint = FakeTCP
    try:
        ep = endpoints.TorClientEndpoint('example.com', 80, reactor=MemoryReactorClock())
        o = fakes.Outcome(ep.connect(object()))
    except Exception as e:
        return R('exception', '%s: %s', type(e).__name__, e)
    finally:
        endpoints.TCP4ClientEndpoint = TCP4ClientEndpoint
    want_attempts = [('127.0.0.1', 9050)]
    if o1 in (1, 2):
        want_attempts.append(('127.0.0.1', 9150))
    if attempts != want_attempts:
        return R('fallback-attempts-wrong', 'outcomes %d,%d: attempts %r want %r', o1, o2, attempts, want_attempts)
    if o.fired != 1:
        return R('connect-did-not-finish-once', 'outcomes %d,%d fired %d', o1, o2, o.fired)
    if o1 == 0:
        ok = o.ok and o.value == 'proto-via-9050'
    elif o1 == 3:
        ok = o.err and isinstance(o.exc(), RuntimeError) and '9050' in str(o.exc())
    elif o2 == 0:
        ok = o.ok and o.value == 'proto-via-9150'
    else:
        ok = o.err and '9150' in str(o.exc())        # the last error
    if not ok:
        return R('fallback-result-wrong', 'outcomes %d,%d: ok=%d value %r exc %r', o1, o2, o.ok, o.value, o.exc())
    reached()
    return ''


@cond(quick=dict(budget=60))
def c18_fallback(o1: int, o2: int) -> str:
    """every pair of connect outcomes over the fallback ports 9050, 9150"""
    o1 = api.pick(o1, 0, 3)
    o2 = api.pick(o2, 0, 3)
    with api.no_tracing():
        return _fallback(o1, o2)
