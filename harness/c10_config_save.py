"""C10 -- config changes reach Tor only on save, as one SETCONF with exactly the changes.

Real code: TorConfig.__setattr__/__getattr__/mark_unsaved/save/_save_completed/needs_save, _ListWrapper,
TorConfigType.validate, TorControlProtocol.set_conf; Tor = SimTor (applies SETCONF semantics to a config store).
Symbolic: the sequence of assignments / in-place list operations / accepted and rejected saves, the assigned
integer, which option is touched.
"""
from vlib import prelude
from vlib.api import cond, assume, reached, R, known
from vlib import api, fakes
from harness.c11_config_view import make_world, bootstrap, _KINDS, _NAME

prelude.install()

PROPERTY = 'C10'
ASSUMPTIONS = [
    'TorConfig bootstrapped (natively) against SimTor through the real protocol; the edits, save() and SimTor\'s decoding of the SETCONF line are traced',
    'reads show Tor\'s live value, so an option that was *assigned* is not mutated through a fresh attribute read before it is saved (excluded)',
    'a comma-list option may be sent once per element (SimTor keeps repeated keys as a list)',
]
BOUNDS = {'quick': {'types': 'c10_types: one option of each of 16 type names, one change + save', 'operations': 4, 'options': 'the option of the partition\'s kind + Nickname', 'list_ops': 'append/extend/insert/remove/pop/setitem'},
          'thorough': {'operations': 5}}
OUTSIDE = ['hidden-service options', 'more than 5 operations', 'list operations that _ListWrapper does not wrap (del, clear, sort, +=): not in the statement']

INITIAL = {'AvoidDiskWrites': ['0'], 'AssumeReachable': ['auto'], 'NumCPUs': ['4'], 'CircuitPriorityHalflife': ['30.0'],
           'Nickname': ['fixed'], 'ExitNodes': ['x1'], 'ExcludeNodes': ['{aa},{bb}'], 'Log': ['notice stdout'], 'SocksPort': ['9050'], '__SocksPort': None, 'SocksPortLines': None}


def _scalar_value(kind, n, ival):
    """-> (python value to assign, text Tor must receive)"""
    if kind == 'bool':
        return [(True, '1'), (False, '0')][n % 2]
    if kind == 'auto':
        return [(1, '1'), (0, '0'), (-1, 'auto'), (-2, 'auto'), ('-7', 'auto')][n % 5]
    if kind == 'int':
        return (ival, None)      # text = str(ival), compared numerically
    if kind == 'float':
        return ('%d.5' % n, '%d.5' % n)
    if n % 3 == 1:
        return ('na me "q%d" \\z' % n, 'na me "q%d" \\z' % n)      # needs the quoted wire form, with escapes
    if n % 3 == 2:
        return ('trail%d ' % n, 'trail%d ' % n)                    # white space only at the end: still needs the quoted form
    return ('name%d' % n, 'name%d' % n)


def _history(kind, ops, ival):
    name = _NAME[kind]
    listy = kind in ('comma', 'lines', 'ports')
    with api.no_tracing():
        p, t, tor = make_world(dict(INITIAL), True, {})
        cfg, out = bootstrap(p, tor)
        if out.ok != 1:
            return 'harness: bootstrap failed %r' % (out.exc(),)
        base_lines = len(tor.lines)
    # intended configuration (what the user has asked for so far) and the pending set
    intended = {name: list(INITIAL[name]), 'Nickname': ['fixed']}
    pending = []
    assigned = set()     # options assigned (not mutated in place) since the last successful save
    str_assigned = set()  # ... with a plain string (for a list-valued option)
    tainted = set()      # list options whose last *saved* value was given as a plain string
    counter = 0

    def mark(n):
        if n not in pending:
            pending.append(n)

    try:
        for step, op in enumerate(ops):
            counter += 1
            wire_before = len(tor.pending())
            if op == 0:
                if listy:
                    newl = ['%s%d' % ({'comma': 'n', 'lines': 'notice file /f', 'ports': '91'}[kind], counter), 'second%d' % counter] if kind != 'ports' \
                        else ['91%02d' % counter, '92%02d IsolateDestAddr' % counter]
                    if kind == 'ports' and counter % 2 == 0:
                        newl = [0]           # "SocksPort 0": a list whose only element is falsy
                    if kind == 'ports' and counter % 3 == 0 and known('C10-string-to-portlist'):
                        assume(False)        # region of the listed known finding (re-checked by its witness)
                    if kind in ('comma', 'ports') and counter % 3 == 0:
                        # a plain string given to a list-valued option is one value, not a sequence of characters
                        sval = 'n%d,second%d' % (counter, counter) if kind == 'comma' else '96%02d' % counter
                        setattr(cfg, name, sval)
                        intended[name] = [sval]
                        str_assigned.add(name)
                    else:
                        setattr(cfg, name, list(newl))
                        intended[name] = list(newl)
                        str_assigned.discard(name)
                else:
                    val, text = _scalar_value(kind, counter, ival)
                    setattr(cfg, name, val)
                    intended[name] = [text if text is not None else val]
                assigned.add(name)
                mark(name)
            elif 1 <= op <= 5:
                assume(listy and name not in assigned)
                if name in tainted and known('C10-string-to-commalist'):
                    assume(False)        # region of the listed known finding (re-checked by its witness)
                lst = cfg.__getattr__(name)
                x = {'comma': 'e%d', 'lines': 'info file /g%d', 'ports': '93%02d'}[kind] % counter
                if kind == 'ports' and counter % 3 == 0:
                    x = 0                    # a falsy element among others, as an int
                if op == 1:
                    lst.append(x)
                    intended[name].append(x)
                elif op == 2:
                    assume(len(intended[name]) >= 1)
                    if counter % 2:
                        lst.pop()
                        intended[name].pop()
                    else:
                        lst.remove(intended[name][0])
                        intended[name].pop(0)
                elif op == 3:
                    lst.insert(0, x)
                    intended[name].insert(0, x)
                elif op == 4:
                    assume(len(intended[name]) >= 1)
                    lst[0] = x
                    intended[name][0] = x
                else:
                    x2 = '94%02d' % counter if kind == 'ports' else x + 'b'
                    lst.extend([x, x2])
                    intended[name] += [x, x2]
                mark(name)
            elif op == 9:
                # assign the tracked list object read from ANOTHER list option (aliasing between options)
                assume(listy)
                other = cfg.__getattr__('ExcludeNodes')
                setattr(cfg, name, other)
                intended[name] = [str(x) for x in other]
                assigned.add(name)
                mark(name)
            elif op == 10:
                # another controller changed the option: Tor announces it (CONF_CHANGED).  That is not a change of ours: nothing
                # becomes pending because of it (tried while the option has no pending change of its own)
                assume(listy and name not in pending)
                newl = ['%s%d' % ({'comma': 'o', 'lines': 'warn file /o', 'ports': '95'}[kind], counter)] if kind != 'ports' else ['95%02d' % counter]
                tor.options[name]['values'] = list(newl)
                tor.say(*tor.conf_changed_lines([(name, newl)]))
                intended[name] = list(newl)
                if (name in getattr(cfg, 'unsaved', {})) and name not in pending:
                    return R('event-from-tor-made-an-option-pending', '%s', name)
            elif op == 6:
                cfg.Nickname = 'nick%d' % counter
                intended['Nickname'] = ['nick%d' % counter]
                assigned.add('Nickname')
                mark('Nickname')
            else:
                accept = (op == 7)
                if known('C10-emptied-list'):
                    assume(not any(len(intended[n]) == 0 for n in pending))
                if not accept and pending:
                    tor.reject_setconf.append(552)
                nset = len(tor.setconfs)
                o = fakes.Outcome(cfg.save())
                if len(tor.pending()) > 1:
                    return R('save-wrote-more-than-one-command', '%r', tor.pending())
                tor.pump()
                sent = tor.setconfs[nset:]
                if not pending:
                    if sent and sent != [[]]:
                        return R('save-without-changes-sent-a-command', '%r', sent)
                else:
                    if len(sent) != 1 or sent[0] is None:
                        return R('save-did-not-send-exactly-one-wellformed-SETCONF', '%r', sent)
                    want = []
                    for n in pending:
                        if len(intended[n]) == 0:
                            want.append((n, None))
                        for v in intended[n]:
                            want.append((n, v))
                    got = [(k, v) for (k, v) in sent[0]]
                    if len(got) != len(want):
                        return R('SETCONF-does-not-name-exactly-the-changes', 'pending %r: sent %r want %r', pending, got, want)
                    for (gk, gv), (wk, wv) in zip(got, want):
                        if gk != wk:
                            return R('SETCONF-does-not-name-exactly-the-changes', 'pending %r: sent %r want %r', pending, got, want)
                        if isinstance(wv, int) and not isinstance(wv, bool):
                            if gv != str(wv):
                                return R('SETCONF-value-wrong', '%s: sent %r want %r', gk, gv, wv)
                        elif gv != wv:
                            return R('SETCONF-value-wrong', '%s: sent %r want %r', gk, gv, wv)
                if accept:
                    if o.ok != 1:
                        return R('accepted-save-did-not-succeed', '%r', o.exc())
                    for n in pending:
                        have = tor.options[n]['values']
                        wantv = [str(v) for v in intended[n]]
                        if (have or []) != wantv:
                            return R('tor-store-differs-from-intended-configuration', '%s: tor %r intended %r', n, have, wantv)
                    untouched = tor.options['ExcludeNodes']['values']
                    if untouched != ['{aa},{bb}']:
                        return R('an-unchanged-option-was-altered-in-tor', 'ExcludeNodes now %r', untouched)
                    tainted = (tainted - set(pending)) | (str_assigned & set(pending))
                    str_assigned = set()
                    pending = []
                    assigned = set()
                    if cfg.needs_save():
                        return R('needs_save-true-after-acknowledged-save')
                    nl = len(tor.lines)
                    o2 = fakes.Outcome(cfg.save())
                    tor.pump()
                    if len(tor.lines) != nl or o2.ok != 1:
                        return R('second-save-sent-something')
                    # reads return the saved values
                    v = cfg.__getattr__(name)
                    if listy:
                        flat = (lambda xs: ','.join(str(x) for x in xs).split(',')) if kind == 'comma' else (lambda xs: [str(x) for x in xs])
                        if flat(v) != flat(intended[name]):
                            return R('read-after-save-differs', '%s: %r vs %r', name, list(v), intended[name])
                    if cfg.__getattr__('Nickname') != intended['Nickname'][0]:
                        return R('read-after-save-differs', 'Nickname %r', cfg.__getattr__('Nickname'))
                else:
                    if pending:
                        if o.err != 1:
                            return R('rejected-save-did-not-fail')
                        if not cfg.needs_save():
                            return R('changes-lost-after-rejected-save')
            if op <= 6 or op in (9, 10):
                if len(tor.pending()) != wire_before:
                    return R('edit-wrote-to-tor-before-save', 'op %d: %r', op, tor.pending())
        # whatever is still pending must be carried by a final accepted save
        if pending and not (known('C10-emptied-list') and any(len(intended[n]) == 0 for n in pending)):
            o = fakes.Outcome(cfg.save())
            tor.pump()
            if o.ok != 1:
                return R('final-save-failed', '%r', o.exc())
            for n in pending:
                have = tor.options[n]['values']
                if (have or []) != [str(v) for v in intended[n]]:
                    return R('pending-changes-not-carried-by-a-later-save', '%s: tor %r intended %r', n, have, intended[n])
    except Exception as e:
        return R('exception', '%s: %s', type(e).__name__, e)
    reached()
    return ''


def _parts():
    out = []
    for ki, kind in enumerate(_KINDS):
        firsts = (0, 1, 2, 3, 4, 5, 6, 9, 10) if kind in ('comma', 'lines', 'ports') else (0, 6)
        for o1 in firsts:
            out.append({'ki': ki, 'o1': o1})
    return out


@cond(quick=dict(parts=_parts(), budget=120))
def c10_history4(ki: int, o1: int, o2: int, o3: int, o4: int, ival: int) -> str:
    """4 operations on the option of kind ki (and Nickname): 0 assign, 1..5 in-place list ops, 6 assign Nickname, 7 accepted save, 8 rejected save, 9 assign the list object of another option, 10 Tor announces a change made by someone else"""
    kind = _KINDS[ki]
    if kind != 'int':
        assume(ival == 0)
    else:
        ival = api.pick_from(ival, (-1, 0, 1, 65535, 100000))
    allowed = tuple(range(11)) if kind in ('comma', 'lines', 'ports') else (0, 6, 7, 8)
    ops = [o1] + [api.pick_from(o, allowed) for o in (o2, o3, o4)]
    return _history(kind, ops, ival)


@cond(thorough=dict(parts=[dict(p, o2=b) for p in _parts() for b in range(11)], budget=300))
def c10_history5(ki: int, o1: int, o2: int, o3: int, o4: int, o5: int, ival: int) -> str:
    """5 operations"""
    kind = _KINDS[ki]
    if kind != 'int':
        assume(ival == 0)
    else:
        ival = api.pick_from(ival, (-1, 0, 1, 65535, 100000))
    allowed = tuple(range(11)) if kind in ('comma', 'lines', 'ports') else (0, 6, 7, 8)
    assume(o2 in allowed)
    ops = [o1, o2] + [api.pick_from(o, allowed) for o in (o3, o4, o5)]
    return _history(kind, ops, ival)


# every type name Tor's config/names can announce that txtorcon has a parser class for
ALL_TYPES = [('Boolean', '0', True, '1'), ('Boolean+Auto', 'auto', 1, '1'), ('Integer', '4', 7, '7'), ('SignedInteger', '-1', -5, '-5'),
             ('Port', '9050', 9051, '9051'), ('TimeInterval', '60', 90, '90'), ('TimeMsecInterval', '1000', '2500', '2500'),
             ('DataSize', '1024', 2048, '2048'), ('Float', '30.0', '1.5', '1.5'), ('Time', '2020-01-01', '2021-02-02', '2021-02-02'),
             ('String', 'fixed', 'other', 'other'), ('Filename', '/a', '/b c', '/b c'),
             ('CommaList', 'a,b', None, None), ('TimeIntervalCommaList', '0,60,3600', None, None), ('RouterList', 'x1,x2', None, None),
             ('LineList', 'notice stdout', None, None)]


def _one_type(ti, op):
    """an option of the ti-th type: a scalar is assigned, a list is edited in place (op: 0 append, 1 insert, 2 setitem, 3 extend) or assigned
    (op 4); then save()"""
    from vlib.simtor import SimTor
    from txtorcon.torconfig import TorConfig
    typ, initial, newval, newtext = ALL_TYPES[ti]
    listy = newval is None
    p, t = fakes.new_protocol()
    p.post_bootstrap = None
    p._set_valid_events('CONF_CHANGED CIRC STREAM')
    opts = {'TheOption': {'type': typ, 'values': [initial]}, 'Nickname': {'type': 'String', 'values': ['fixed']}}
    tor = SimTor(p, t, opts, True)
    tor.defaults = {}
    try:
        cfg = TorConfig(p)
        out = fakes.Outcome(cfg.post_bootstrap)
        for _ in range(50):
            if not tor.pump():
                break
        if out.ok != 1:
            return R('bootstrap-failed', '%s: %r', typ, out.exc())
        n0 = len(tor.setconfs)
        if listy:
            sep = initial.split(',') if typ != 'LineList' else [initial]
            item = {'CommaList': 'c', 'TimeIntervalCommaList': '7200', 'RouterList': 'x3', 'LineList': 'info file /x'}[typ]
            lst = cfg.__getattr__('TheOption')
            if op == 0:
                lst.append(item)
                want = sep + [item]
            elif op == 1:
                lst.insert(0, item)
                want = [item] + sep
            elif op == 2:
                lst[0] = item
                want = [item] + sep[1:]
            elif op == 3:
                lst.extend([item, item])
                want = sep + [item, item]
            else:
                cfg.TheOption = [item]
                want = [item]
        else:
            assume(op == 0)
            cfg.TheOption = newval
            want = [newtext]
        if tor.pending():
            return R('edit-wrote-to-tor-before-save', '%r', tor.pending())
        if not cfg.needs_save():
            return R('change-not-pending', '%s option: the edit was not noticed', typ)
        o = fakes.Outcome(cfg.save())
        tor.pump()
        sent = tor.setconfs[n0:]
        if len(sent) != 1 or sent[0] is None:
            return R('save-did-not-send-exactly-one-wellformed-SETCONF', '%s: %r', typ, sent)
        got = [v for k, v in sent[0] if k == 'TheOption']
        if [k for k, _v in sent[0] if k != 'TheOption']:
            return R('SETCONF-does-not-name-exactly-the-changes', '%r', sent[0])
        if got != [str(x) for x in want] and got != [','.join(str(x) for x in want)]:
            return R('SETCONF-value-wrong', '%s: sent %r want %r (one item per element, or one comma-joined item)', typ, got, want)
        if o.ok != 1 or cfg.needs_save():
            return R('accepted-save-did-not-settle', '%r', o.exc())
    except Exception as e:
        return R('exception', '%s: %s: %s', typ, type(e).__name__, e)
    reached()
    return ''


@cond(quick=dict(budget=150))
def c10_types(ti: int, op: int) -> str:
    """one option of every type name txtorcon has a parser for (incl. the sub-types SignedInteger, Port, TimeInterval, DataSize, Filename,
    TimeIntervalCommaList): a change made to it is noticed and carried by the next save"""
    ti = api.pick(ti, 0, len(ALL_TYPES) - 1)
    op = api.pick(op, 0, 4)
    with api.no_tracing():
        return _one_type(ti, op)


def _overlap(first_listy, second_listy, accept_first):
    """a second change and a second save() while Tor has not answered the first SETCONF yet"""
    with api.no_tracing():
        p, t, tor = make_world(dict(INITIAL), True, {})
        cfg, out = bootstrap(p, tor)
        if out.ok != 1:
            return 'harness: bootstrap failed %r' % (out.exc(),)
    try:
        want = {}

        def change(listy, tag):
            if listy:
                cfg.__getattr__('Log').append('info file /' + tag)
                want['Log'] = ['notice stdout'] + ['info file /' + x for x in want.get('_logs', []) + [tag]]
                want.setdefault('_logs', []).append(tag)
            else:
                cfg.Nickname = 'nick' + tag
                want['Nickname'] = ['nick' + tag]
        change(first_listy, 'one')
        if not accept_first:
            tor.reject_setconf.append(552)
        o1 = fakes.Outcome(cfg.save())            # written, Tor's answer is still outstanding
        if len(tor.pending()) != 1:
            return R('save-did-not-write-one-command', '%r', tor.pending())
        change(second_listy, 'two')
        o2 = fakes.Outcome(cfg.save())
        for _ in range(10):
            if not tor.pump():
                break
        if not accept_first and o1.err != 1:
            return R('rejected-save-did-not-fail')
        if o2.ok != 1:
            return R('accepted-save-did-not-succeed', '%r', o2.exc())
        for k, v in want.items():
            if k.startswith('_'):
                continue
            if tor.options[k]['values'] != v:
                return R('pending-changes-not-carried-by-a-later-save', '%s: tor %r intended %r (setconfs %r)', k, tor.options[k]['values'], v, tor.setconfs)
        if cfg.needs_save():
            return R('needs_save-true-after-acknowledged-save')
    except Exception as e:
        return R('exception', '%s: %s', type(e).__name__, e)
    reached()
    return ''


@cond(quick=dict(budget=60))
def c10_overlapping_saves(first_listy: bool, second_listy: bool, accept_first: bool) -> str:
    """change, save, change, save before Tor has answered the first save (accepted or rejected), then both answers arrive"""
    with api.no_tracing():
        return _overlap(True if first_listy else False, True if second_listy else False, True if accept_first else False)
