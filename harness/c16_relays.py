"""C16 -- relay view equals the latest consensus document, nothing carried over.

Real code: MicrodescriptorParser (line machine), TorState._create_router/_update_network_status and the
ns/all part of _bootstrap (get_info_incremental + parser.done), router.hexIdFromHash/hashFromHexId,
Router.update/flags/bandwidth.  Symbolic: for the relay under test and for each of two consecutive documents:
presence, nickname (unique / shared), flag subset, a-lines, w-line and its bandwidth; presence of a second relay
that shares the nickname; which path delivers which document.
"""
import base64
import binascii
from vlib import prelude
from vlib.api import cond, assume, reached, R
from vlib import api, fakes

prelude.install()
from txtorcon.torstate import TorState  # noqa: E402
from txtorcon.router import hexIdFromHash, hashFromHexId  # noqa: E402

PROPERTY = 'C16'
ASSUMPTIONS = [
    'documents rendered by a reference builder from a relay table (dir-spec r / a / s / w / p lines; w and p optional, a lines after r)',
    'first document delivered as the reply to the real get_info_incremental("ns/all", parser.feed_line) followed by parser.done() '
    '(the calls TorState._bootstrap makes); later ones as real 650+NEWCONSENSUS data-block events through the real protocol',
    'three-valued: lookup of a non-unique nickname may raise or return None',
    'an absent w line means bandwidth 0 (the Router default), not a value carried over',
    'authority nicknames are unique among authorities (the authorities index is keyed by nickname)',
]
BOUNDS = {'quick': {'documents': 2, 'relays': 3, 'varied_relay': 'presence x nickname x 8 flag subsets x 0..2 a-lines x w-line with 4 bandwidth values, per document',
                    'codec': 'real 20-byte identities with one symbolic byte at every position'},
          'thorough': {'documents': 3}}
OUTSIDE = ['more than 3 relays', 'identity codecs with more than one symbolic byte', 'exit policies (p lines are parsed and ignored)']

ID = {1: bytes([0x11] * 20), 2: bytes([0x22] * 20), 3: bytes([0xAB] + [0x33] * 19)}
BWS = (0, 1, 100, 2 ** 31)
FLAGNAMES = ['Guard', 'Authority', 'Named']


def b64id(raw):
    return base64.b64encode(raw).decode('ascii').rstrip('=')


def hexid(raw):
    return '$' + binascii.hexlify(raw).decode('ascii').upper()


def relay_lines(rid, nick, flags, n_a, has_w, bw, has_p, net=0):
    # net: 0 the usual address and ports; 1 same address, other ports (ORPort 443, DirPort 0); 2 other address, usual ports
    ip = ('10.8.%d.7' if net == 2 else '10.9.%d.1') % rid
    orport, dirport = ('443', '0') if net == 1 else ('9001', '9030')
    lines = ['r %s %s %s 2024-01-01 00:00:00 %s %s %s' % (nick, b64id(ID[rid]), 'A' * 27, ip, orport, dirport)]
    v6 = ['[2001:db8::%d]:9001' % rid, '[2001:db8:1::%d]:443' % rid][:n_a]
    for a in v6:
        lines.append('a ' + a)
    lines.append('s ' + ' '.join(sorted(['Fast', 'Running', 'Valid'] + flags)))
    if has_w:
        # dir-spec allows further keywords after Bandwidth=
        extra = {1: ' Unmeasured=1', 100: ' Measured=4890'}.get(bw, '')
        lines.append('w Bandwidth=%d%s' % (bw, extra))
    if has_p:
        lines.append('p accept 80,443')
    return lines, {'nick': nick, 'id': hexid(ID[rid]), 'ip': ip, 'orport': orport, 'dirport': dirport, 'v6': v6, 'flags': [f.lower() for f in ['Fast', 'Running', 'Valid'] + flags],
                   'bw': bw if has_w else 0}


def build_doc(r1, r2_present, r3_dup=False):
    """r1: None or (nick_dup, flagbits, n_a, has_w, bwi, has_p) for relay 1; relay 2 ('dup', Guard) optional; relay 3 fixed"""
    lines = []
    table = {}
    if r1 is not None:
        nick_dup, fb, n_a, has_w, bwi, has_p = r1[:6]
        net = r1[6] if len(r1) > 6 else 0
        flags = [FLAGNAMES[i] for i in range(3) if fb & (1 << i)]
        ls, t = relay_lines(1, 'dup' if nick_dup else 'uniq', flags, n_a, has_w, BWS[bwi], has_p, net)
        lines += ls
        table[1] = t
    if r2_present:
        ls, t = relay_lines(2, 'dup', ['Guard'], 1, True, 7, False)
        lines += ls
        table[2] = t
    ls, t = relay_lines(3, 'dup' if r3_dup else 'third', ['Authority'], 0, False, 0, True)
    lines += ls
    table[3] = t
    return lines, table


def check_view(state, table, objs, step):
    want_ids = sorted(t['id'] for t in table.values())
    got_ids = sorted(r.id_hex for r in state.all_routers)
    if got_ids != want_ids:
        return R('all_routers-differs-from-document', 'doc %s: view %r document %r', step, got_ids, want_ids)
    if sorted(state.routers_by_hash.keys()) != want_ids:
        return R('routers_by_hash-differs-from-document', 'doc %s: %r vs %r', step, sorted(state.routers_by_hash), want_ids)
    names = {}
    for t in table.values():
        names.setdefault(t['nick'], []).append(t['id'])
    if sorted(state.routers_by_name.keys()) != sorted(names.keys()):
        return R('routers_by_name-keys-differ', 'doc %s: %r vs %r', step, sorted(state.routers_by_name), sorted(names))
    for nick, ids in names.items():
        if sorted(r.id_hex for r in state.routers_by_name[nick]) != sorted(ids):
            return R('routers_by_name-entry-differs', 'doc %s nick %s', step, nick)
    for rid, t in table.items():
        try:
            r = state.routers[t['id']]
        except KeyError:
            return R('lookup-by-identity-fails', 'doc %s relay %d', step, rid)
        if r is None or r is not state.routers_by_hash[t['id']] or state.router_from_id(t['id']) is not r:
            return R('lookup-by-identity-inconsistent', 'doc %s relay %d', step, rid)
        if rid in objs and objs[rid] is not r:
            return R('relay-object-identity-not-kept', 'doc %s relay %d', step, rid)
        if r.name != t['nick'] or r.id_hex != t['id'] or r.ip != t['ip'] or str(r.or_port) != t['orport'] or str(r.dir_port) != t['dirport']:
            return R('relay-attributes-differ', 'doc %s relay %d: view %s %s %s:%s dir %s, document %s %s:%s dir %s', step, rid, r.name, r.id_hex, r.ip,
                     r.or_port, r.dir_port, t['nick'], t['ip'], t['orport'], t['dirport'])
        if list(r.ip_v6) != t['v6']:
            return R('ipv6-addresses-differ', 'doc %s relay %d: view %r document %r', step, rid, list(r.ip_v6), t['v6'])
        if sorted(r.flags) != sorted(t['flags']):
            return R('flags-differ', 'doc %s relay %d: view %r document %r', step, rid, sorted(r.flags), sorted(t['flags']))
        if r.bandwidth != t['bw']:
            return R('bandwidth-differs', 'doc %s relay %d: view %r document %r', step, rid, r.bandwidth, t['bw'])
        unique = len(names[t['nick']]) == 1
        byname = state.routers.get(t['nick'])
        if unique and byname is not r:
            return R('lookup-by-unique-nickname-fails', 'doc %s relay %d nick %s', step, rid, t['nick'])
        if not unique and byname is not None:
            return R('lookup-by-ambiguous-nickname-returns-a-relay', 'doc %s nick %s', step, t['nick'])
    want_guards = sorted(t['id'] for t in table.values() if 'guard' in t['flags'])
    if sorted(state.guards.keys()) != want_guards or any(state.guards[k].id_hex != k for k in state.guards):
        return R('guards-differ-from-document', 'doc %s: view %r document %r', step, sorted(state.guards), want_guards)
    # authorities are keyed by nickname (directory authorities have unique nicknames): compared as a set of names,
    # and every listed object must carry the flag in this document
    want_auth = sorted(set(t['nick'] for t in table.values() if 'authority' in t['flags']))
    if sorted(state.authorities.keys()) != want_auth:
        return R('authorities-differ-from-document', 'doc %s: view %r document %r', step, sorted(state.authorities), want_auth)
    auth_ids = [t['id'] for t in table.values() if 'authority' in t['flags']]
    for k, r in state.authorities.items():
        if r.id_hex not in auth_ids:
            return R('authorities-hold-a-relay-without-the-flag', 'doc %s: %s', step, r.id_hex)
    for k in list(state.routers.keys()):
        if k.startswith('$') and k not in want_ids:
            return R('stale-relay-left-in-routers', 'doc %s: %s', step, k)
    return ''


def deliver_doc(state, p, lines, how, first):
    if how == 0:
        # the ns/all path of TorState._bootstrap
        p.get_info_incremental('ns/all', state._network_status_parser.feed_line)
        p.lineReceived(b'250+ns/all=')
        for ln in lines:
            p.lineReceived(ln.encode('ascii'))
        p.lineReceived(b'.')
        p.lineReceived(b'250 OK')
        state._network_status_parser.done()
    else:
        p.lineReceived(b'650+NEWCONSENSUS')
        for ln in lines:
            p.lineReceived(ln.encode('ascii'))
        p.lineReceived(b'.')
        p.lineReceived(b'650 OK')


def _docs(cfgs, first_how):
    with api.no_tracing():
        p, t = fakes.new_protocol()
        p._set_valid_events('NEWCONSENSUS CIRC STREAM')
        state = TorState(p, bootstrap=False)
        p.add_event_listener('NEWCONSENSUS', state._update_network_status)
        p.lineReceived(b'250 OK')
    objs = {}
    try:
        for i, cfg in enumerate(cfgs):
            r1, r2p = cfg[0], cfg[1]
            lines, table = build_doc(r1, r2p, cfg[2] if len(cfg) > 2 else False)
            deliver_doc(state, p, lines, first_how if i == 0 else 1, i == 0)
            r = check_view(state, table, objs, i)
            if r:
                return r
            objs = {rid: state.routers_by_hash[tt['id']] for rid, tt in table.items()}
    except Exception as e:
        return R('exception', '%s: %s', type(e).__name__, e)
    reached()
    return ''


def _r1(present, nick_dup, fb, n_a, has_w, bwi, has_p, net=0):
    if not present:
        assume(not nick_dup and fb == 0 and n_a == 0 and not has_w and bwi == 0 and not has_p and net == 0)
        return None
    if not has_w:
        assume(bwi == 0)
    return (True if nick_dup else False, api.pick(fb, 0, 7), api.pick(n_a, 0, 2), True if has_w else False, api.pick(bwi, 0, 3), True if has_p else False,
            api.pick(net, 0, 2))


# rich first documents (relay 1 config, relay 2 present)
FIRST = [
    ((False, 7, 2, True, 3, True), True),      # unique nick, all flags, 2 a-lines, big bandwidth; relay 2 present
    ((True, 1, 1, True, 2, False), True),      # shares nickname with relay 2, Guard
    ((True, 2, 0, False, 0, False), False),    # 'dup' nick but alone, Authority, no w line
    (None, True),                              # relay 1 absent
    ((False, 0, 0, True, 0, True), False),     # plain relay, bandwidth 0
    ((False, 4, 2, False, 0, False), True),    # Named, no w
    ((True, 1, 1, True, 2, False), True, True),  # three relays share the nickname
]


@cond(quick=dict(parts=[{'first': i, 'how': h} for i in range(len(FIRST)) for h in (0, 1)], budget=150))
def c16_two_documents(first: int, how: int, present: bool, nick_dup: bool, fb: int, n_a: int, has_w: bool, bwi: int, has_p: bool, r2: bool, r3dup: bool, net: int) -> str:
    """document 1 = one of the fixed rich tables (delivered by path `how`), document 2 symbolic (up to three relays may share a nickname;
    relay 1 may come back with other ports on the same address, or on another address)"""
    if nick_dup or r3dup or not r2:
        assume(net == 0)      # (bounds the product: the address / port change is tried with unique nicknames)
    cfg2 = (_r1(True if present else False, nick_dup, fb, n_a, has_w, bwi, has_p, net), True if r2 else False, True if r3dup else False)
    with api.no_tracing():
        return _docs([FIRST[first], cfg2], how)


@cond(thorough=dict(parts=[{'first': i, 'second': j} for i in range(len(FIRST)) for j in range(len(FIRST))], budget=300))
def c16_three_documents(first: int, second: int, present: bool, nick_dup: bool, fb: int, n_a: int, has_w: bool, bwi: int, has_p: bool, r2: bool) -> str:
    """documents 1 and 2 from the fixed tables, document 3 symbolic"""
    cfg3 = (_r1(True if present else False, nick_dup, fb, n_a, has_w, bwi, has_p), True if r2 else False)
    with api.no_tracing():
        return _docs([FIRST[first], FIRST[second], cfg3], 0)


@cond(quick=dict(parts=[{'pos': i} for i in range(20)], budget=100))
def c16_codec(b: int, pos: int) -> str:
    """identity codecs on real-width (20-byte) identities, one byte symbolic: bijection between base64 and $hex forms"""
    b = api.pick(b, 0, 255)
    with api.no_tracing():
        raw = bytes([0x5A] * pos + [b] + [0xC3] * (19 - pos))
        h = hexIdFromHash(b64id(raw))
        if h != hexid(raw):
            return R('hexIdFromHash-wrong', '%r -> %r', raw, h)
        if hashFromHexId(h) != b64id(raw) or hashFromHexId(h[1:]) != b64id(raw):
            return R('hashFromHexId-not-the-inverse', '%r', raw)
        if hexIdFromHash(hashFromHexId(h)) != h:
            return R('codec-roundtrip-differs', '%r', raw)
    reached()
    return ''
