"""C05 -- SOCKS5: no data before success; after it every byte is relayed, none withheld.

Real code: _TorSocksFactory/_TorSocksProtocol/_SocksMachine (feed_data, _parse_*_reply,
_make_connection, _relay_data, _disconnect), _create_socks_error.  Symbolic: method reply (ver,
method), request reply header (ver, rep, rsv, atyp), domain length, two cut points of the server
byte stream, the chunk boundary at which the server disconnects.  Oracle:
vlib.ref_socks.parse_reply_stream over the whole stream.
"""
import os
from vlib import prelude, shims
from vlib.api import cond, assume, reached, R, known
from vlib import api, fakes, ref_socks

prelude.install()
import struct as _real_struct  # noqa: E402
import txtorcon.socks as socks  # noqa: E402
from twisted.internet.protocol import Protocol, Factory  # noqa: E402
from twisted.internet.error import ConnectionDone  # noqa: E402
from twisted.python.failure import Failure  # noqa: E402

PROPERTY = 'C05'
# RFC 1928 section 6 reply codes -> the error a caller catches (names of the public classes in txtorcon.socks)
RFC1928_ERRORS = {1: 'GeneralServerFailureError', 2: 'ConnectionNotAllowedError', 3: 'NetworkUnreachableError', 4: 'HostUnreachableError',
                  5: 'ConnectionRefusedError', 6: 'TtlExpiredError', 7: 'CommandNotSupportedError', 8: 'AddressTypeNotSupportedError'}
ASSUMPTIONS = [
    "name 'struct' inside txtorcon.socks replaced by the validated pure-Python shim (see C06)",
    'SOCKS transport = list-recording double; application protocol/factory = recording doubles',
    'address bytes of replies are concrete boundary values; header fields, domain length, cut points and the disconnect point are symbolic',
    'a CONNECT answered with a DOMAINNAME-typed success reply is only required to produce exactly one outcome (three-valued)',
    'an exception escaping dataReceived is followed by connectionLost, as Twisted transports do (three-valued: the attempt must then have failed exactly once)',
]
BOUNDS_NOTE = 'c05_big_payload: application data of 1..70000 bytes coalesced with a success reply'
BOUNDS = {'quick': {'cuts': '1 symbolic cut, plus all-in-one-chunk and byte-by-byte', 'stream_bytes': '<=29', 'app_bytes': 5, 'reply_codes': '0..255', 'atyp': '0..255', 'domain_len': '0..3'},
          'thorough': {'cuts': '2 symbolic cuts'}}
OUTSIDE = ['GSSAPI / username-password methods', 'more than 2 symbolic cut points (byte-by-byte is the only finer segmentation)', 'with symbolic cuts the offending header field ranges over the boundary set {0,1,2,4,6,8,9,255} only', 'application data longer than 5 bytes']

V4ADDR = b'\x01\x02\x03\xff'
V6ADDR = bytes(range(0x20, 0x30))
APP = b'HELLO'


class _KeyRealisingDict(dict):
    """_socks_errors with the key concretised first: CrossHair cannot build a symbolic *class*
    out of a dict lookup with a symbolic key; realising the reply code is an exhaustive
    fan-out over its (bounded) values."""

    def __getitem__(self, k):
        return dict.__getitem__(self, api.concrete(k))


def setup(mode):
    if not isinstance(socks._socks_errors, _KeyRealisingDict):
        socks._socks_errors = _KeyRealisingDict(socks._socks_errors)
    if mode == 'symbolic':
        fmts = shims.struct_formats_in(os.path.join(prelude.REPO, 'txtorcon', 'socks.py'))
        shims.validate_struct_shim(fmts)
        socks.struct = shims.StructShim
    else:
        socks.struct = _real_struct


class _App(Protocol):
    def __init__(self, log):
        self.log = log
        self.got = b''
        self.made = 0
        self.lost = 0

    def makeConnection(self, transport):
        self.made += 1
        Protocol.makeConnection(self, transport)

    def dataReceived(self, d):
        self.got += d

    def connectionLost(self, reason=None):
        self.lost += 1


class _AppFactory(Factory):
    def __init__(self):
        self.built = []

    def buildProtocol(self, addr):
        a = _App(self)
        self.built.append(a)
        return a


def _tail(atyp, dlen):
    """address + port bytes the server sends after the 4 header bytes"""
    if atyp == 1:
        return V4ADDR + b'\x12\x34'
    if atyp == 4:
        return V6ADDR + b'\x12\x34'
    if atyp == 3:
        if dlen == 0:
            return b'\x00' + b'\x12\x34'
        if dlen == 1:
            return b'\x01a' + b'\x12\x34'
        if dlen == 2:
            return b'\x02ab' + b'\x12\x34'
        return b'\x03abc' + b'\x12\x34'
    return b'\x00\x00\x00\x00\x00\x00'


def _run(req_type, stream, cuts, disc_after):
    """Deliver stream in len(cuts)+1 chunks; disconnect after chunk index disc_after (or never if >= nchunks)."""
    kind, info, n_app = ref_socks.parse_reply_stream(stream)
    with api.no_tracing():     # concrete initialisation (no symbolic value involved)
        fac = _AppFactory()
        f = socks._TorSocksFactory('example.com' if req_type != 'RESOLVE_PTR' else '1.2.3.4', 443, req_type,
                                   fac if req_type == 'CONNECT' else None)
        p = f.buildProtocol(None)
        t = fakes.ListTransport()
        o = fakes.Outcome(p.when_done())
        p.makeConnection(t)
    bounds = [0] + list(cuts) + [len(stream)]
    delivered = 0
    disconnected = False
    crashed = False
    nchunks = len(bounds) - 1
    for i in range(nchunks):
        chunk = stream[bounds[i]:bounds[i + 1]]
        if len(chunk):
            try:
                p.dataReceived(chunk)
            except Exception as e:
                # Twisted logs an exception escaping dataReceived and drops the connection
                delivered = bounds[i + 1]
                try:
                    p.connectionLost(Failure(e))
                except Exception as e2:
                    return R('exception-from-connectionLost', '%s: %s', type(e2).__name__, e2)
                disconnected = True
                crashed = True
                break
            delivered = bounds[i + 1]
        # ---- monitors after every chunk
        if o.fired > 1:
            return R('outcome-fired-twice')
        if kind == 'success' and req_type == 'CONNECT' and info[0] != 3:
            if delivered < n_app:
                if fac.built or o.fired:
                    return R('application-protocol-created-before-complete-success-reply', 'delivered %d of %d', delivered, n_app)
            else:
                if len(fac.built) != 1 or fac.built[0].made != 1:
                    return R('application-protocol-not-created-after-success', 'delivered %d, reply ends at %d', delivered, n_app)
                if o.ok != 1 or o.value is not fac.built[0]:
                    return R('connect-not-resolved-with-the-protocol-after-success')
                want = stream[n_app:delivered]
                got = fac.built[0].got
                if got != want:
                    if len(got) < len(want) and want[:len(got)] == got:
                        return R('application-bytes-withheld', 'delivered %r, application saw %r', want, got)
                    return R('application-bytes-wrong', 'delivered %r, application saw %r', want, got)
        else:
            if fac.built:
                return R('application-protocol-created-without-success-reply', 'kind %s', kind)
        if i == disc_after:
            try:
                p.connectionLost(Failure(ConnectionDone()))
            except Exception as e:
                return R('exception-from-connectionLost', '%s: %s', type(e).__name__, e)
            disconnected = True
            break
    # ---- end of history
    if o.fired > 1:
        return R('outcome-fired-twice')
    if crashed:
        # three-valued: the exception model only demands a single outcome
        if o.fired != 1:
            return R('no-single-outcome-after-exception-in-dataReceived', 'ok=%d err=%d', o.ok, o.err)
        if kind == 'success' and not (req_type == 'CONNECT' and info[0] == 3):
            return R('exception-in-dataReceived-on-a-well-formed-success-stream', '%s answered with address type %d', req_type, info[0])
        reached()
        return ''
    complete = delivered >= len(stream)
    succeeded = (kind == 'success' and delivered >= n_app)
    if succeeded:
        if o.ok != 1:
            return R('no-success-outcome-after-success-reply', 'req %s info %r outcome %r', req_type, info, o.exc())
        if req_type == 'CONNECT':
            if info[0] != 3:
                app = fac.built[0]
                # own writes go out on the same connection
                before = len(t.chunks)
                app.transport.write(b'PING')
                if t.chunks[before:] != [b'PING']:
                    return R('application-write-not-on-socks-connection')
                if disconnected and app.lost != 1:
                    return R('application-not-told-about-disconnect', 'lost=%d', app.lost)
        else:
            atyp, addr, _port = info
            v = o.value
            if atyp == 1:
                if v != '1.2.3.255':
                    return R('resolve-result-wrong', 'reply address 1.2.3.255, result %r', v)
            elif atyp == 3:
                if v != addr and v != addr.decode('ascii'):
                    return R('resolve-result-wrong', 'reply name %r, result %r', addr, v)
            else:
                import ipaddress
                try:
                    ok = ipaddress.ip_address(v if not isinstance(v, bytes) or len(v) != 16 else bytes(v)) == ipaddress.ip_address(addr)
                except Exception:
                    ok = False
                if not ok:
                    return R('resolve-result-wrong', 'reply IPv6 %r, result %r', addr, v)
    else:
        decided_error = kind in ('bad-method', 'error', 'malformed') and complete
        if decided_error or disconnected:
            if o.err != 1:
                return R('attempt-not-failed-once', 'kind %s complete %s disconnected %s: ok=%d err=%d', kind, complete, disconnected, o.ok, o.err)
            e = o.exc()
            if not isinstance(e, socks.SocksError):
                return R('failure-is-not-a-SocksError', '%r', e)
            if decided_error and kind == 'error':
                rep = info
                if e.code != rep:
                    return R('error-code-not-preserved', 'reply code %d, error %r code %r', rep, e, e.code)
                want_cls = RFC1928_ERRORS.get(rep)
                if want_cls is not None and type(e).__name__ != want_cls:
                    return R('error-does-not-correspond-to-the-reply-code', 'reply code %d: %s expected, got %r', rep, want_cls, e)
                if 1 <= rep <= 8 and type(e) is not socks._socks_errors[rep]:
                    return R('wrong-error-class', 'reply code %d -> %r', rep, type(e))
        else:
            if o.fired:
                return R('outcome-before-any-decision', 'kind %s delivered %d/%d', kind, delivered, len(stream))
    # a party that asks for the outcome only now (as TorSocksEndpoint.connect does once the proxy connection is up) hears the same one
    if o.fired:
        late = fakes.Outcome(p.when_done())
        if late.fired != 1 or late.ok != o.ok or late.err != o.err:
            return R('late-request-told-a-different-outcome', 'first ok=%d err=%d, late fired=%d ok=%d err=%d %r', o.ok, o.err, late.fired, late.ok, late.err, late.exc())
        if o.ok and late.value is not o.value and late.value != o.value:
            return R('late-request-told-a-different-outcome', 'first %r, late %r', o.value, late.value)
    reached()
    return ''


RT = ['CONNECT', 'RESOLVE', 'RESOLVE_PTR']


def _stream(v1, m, v2, rep, rsv, atyp, dlen, with_app):
    assume(0 <= v1 <= 255 and 0 <= m <= 255 and 0 <= v2 <= 255 and 0 <= rep <= 255 and 0 <= rsv <= 255 and 0 <= atyp <= 255)
    assume(0 <= dlen <= 3)
    s = b''
    for x in (v1, m, v2, rep, rsv, atyp):
        s = s + x.to_bytes(1, 'big')      # bytes([x]) would realise x
    s = s + _tail(atyp, dlen)
    if with_app:
        s = s + APP
    return s


# classes of the reply used as partitions
#  0 wrong version in method reply   1 wrong method   2 wrong version in request reply
#  3 error reply (rep != 0)   4 success IPv4   5 success IPv6   6 success DOMAINNAME   7 success, unknown address type
_CLS = [{'rt': r, 'cls': c} for r in range(3) for c in range(11)]
_CLS_Q = [{'rt': 0, 'cls': c} for c in range(11)] + [{'rt': r, 'cls': c} for r in (1, 2) for c in (3, 4, 5, 6)]
_SMALL = (0, 1, 2, 4, 6, 8, 9, 255)


def _small(x):
    return x == 0 or x == 1 or x == 2 or x == 4 or x == 6 or x == 8 or x == 9 or x == 255


def _constrain(cls, v1, m, v2, rep, atyp, dlen, wide):
    """txtorcon formats the offending field into its error text (and looks reply codes up in a dict),
    which realises that one field: with symbolic cut points it is therefore drawn from the
    boundary set _SMALL, with a fixed segmentation from the whole 0..255 range (wide)."""
    if cls != 6 and (cls != 9 or wide):
        assume(dlen == 0)       # wide mode: the fields the class does not concern are canonical
    if cls == 0:
        assume(v1 != 5 and m == 0)
        assume(wide or _small(v1))
        assume(v2 == 5 and rep == 0 and atyp == 1)
    elif cls == 1:
        assume(v1 == 5 and m != 0)
        assume(wide or _small(m))
        assume(v2 == 5 and rep == 0 and atyp == 1)
    else:
        assume(v1 == 5 and m == 0)
        if cls == 2:
            assume(v2 != 5 and rep == 0 and atyp == 1)
            assume(wide or _small(v2))
        else:
            assume(v2 == 5)
            if cls == 10:
                assume(rep != 0 and atyp != 1 and atyp != 3 and atyp != 4)
                if wide:
                    assume(atyp == 0)
                else:
                    assume(_small(rep) and (atyp == 0 or atyp == 2 or atyp == 255))
            elif cls == 3 or cls == 8 or cls == 9:
                assume(rep != 0)
                assume(wide or _small(rep))
                assume(atyp == (1 if cls == 3 else (4 if cls == 8 else 3)))
            else:
                assume(rep == 0)
                if cls == 4:
                    assume(atyp == 1)
                elif cls == 5:
                    assume(atyp == 4)
                elif cls == 6:
                    assume(atyp == 3)
                else:
                    assume(atyp != 1 and atyp != 3 and atyp != 4)
                    assume(wide or _small(atyp))


def _prep(rt, cls, v1, m, v2, rep, rsv, atyp, dlen, wide):
    _constrain(cls, v1, m, v2, rep, atyp, dlen, wide)
    with_app = (rt == 0 and cls in (4, 5))
    return _stream(v1, m, v2, rep, rsv, atyp, dlen, with_app)


def _split_dlen(parts):
    out = []
    for p in parts:
        if p['cls'] in (6, 9):
            for d in range(4):
                q = dict(p)
                q['dlen'] = d
                out.append(q)
        else:
            out.append(p)
    return out


@cond(quick=dict(parts=_split_dlen(_CLS_Q), budget=150), thorough=dict(parts=_split_dlen(_CLS), budget=600))
def c05_one_cut(v1: int, m: int, v2: int, rep: int, rsv: int, atyp: int, dlen: int,
                c1: int, disc: int, rt: int, cls: int) -> str:
    """whole stream cut at one symbolic offset, disconnect after a symbolic chunk (2 = never)"""
    s = _prep(rt, cls, v1, m, v2, rep, rsv, atyp, dlen, False)
    assume(0 <= c1 <= len(s))
    assume(0 <= disc <= 2)
    return _run(RT[rt], s, [c1], disc)


# (error replies with an IPv6 / unknown address type did not finish two symbolic cuts inside 2250 CPU-s: one cut and byte-wise delivery cover them)
@cond(thorough=dict(parts=[q for q in _split_dlen(_CLS_Q) if q['cls'] not in (8, 10)], budget=900))
def c05_two_cuts(v1: int, m: int, v2: int, rep: int, rsv: int, atyp: int, dlen: int,
                 c1: int, c2: int, disc: int, rt: int, cls: int) -> str:
    """whole stream cut at two symbolic offsets, disconnect after a symbolic chunk (3 = never)"""
    s = _prep(rt, cls, v1, m, v2, rep, rsv, atyp, dlen, False)
    assume(0 <= c1 <= c2 <= len(s))
    assume(0 <= disc <= 3)
    return _run(RT[rt], s, [c1, c2], disc)


@cond(quick=dict(parts=_CLS_Q, budget=150), thorough=dict(parts=_CLS, budget=600))
def c05_bytewise(v1: int, m: int, v2: int, rep: int, rsv: int, atyp: int, dlen: int, rt: int, cls: int) -> str:
    """every byte delivered separately; every value 0..255 of each header field"""
    s = _prep(rt, cls, v1, m, v2, rep, rsv, atyp, dlen, True)
    return _run(RT[rt], s, list(range(1, len(s))), 99)


@cond(quick=dict(parts=_CLS_Q, budget=150), thorough=dict(parts=_CLS, budget=600))
def c05_one_chunk(v1: int, m: int, v2: int, rep: int, rsv: int, atyp: int, dlen: int, disc: int, rt: int, cls: int) -> str:
    """everything coalesced into one chunk, then (disc == 0) a disconnect; every value 0..255 of each header field"""
    s = _prep(rt, cls, v1, m, v2, rep, rsv, atyp, dlen, True)
    assume(0 <= disc <= 1)
    return _run(RT[rt], s, [], disc)


_BIG = (1, 240, 250, 251, 252, 253, 256, 263, 300, 4096, 70000)


@cond(quick=dict(parts=[{'atyp': a, 'with_method': w} for a in (1, 4) for w in (False, True)], budget=150))
def c05_big_payload(nb: int, c1: int, disc: int, atyp: int, with_method: bool) -> str:
    """a CONNECT success reply with a large amount of application data behind it, cut at one symbolic offset inside the reply
    (or not at all): sizes around the longest possible SOCKS reply (262 bytes) and well beyond; the method reply arrives
    with the rest (with_method) or on its own before it"""
    nb = api.pick_from(nb, _BIG)
    head = b'\x05\x00' + b'\x05\x00\x00' + (b'\x01' + V4ADDR if atyp == 1 else b'\x04' + V6ADDR) + b'\x12\x34'
    n_rep = len(head)
    assume(0 <= c1 <= n_rep)
    assume(0 <= disc <= 2)
    with api.no_tracing():
        payload = bytes((i * 7 + 3) % 251 for i in range(nb))
    s = head + payload
    cuts = [c1] if with_method else sorted(set([2, max(c1, 2)]))
    return _run('CONNECT', s, cuts, disc if with_method else disc + (len(cuts) - 1))


_LONG = (0, 1, 127, 128, 129, 200, 255)


@cond(quick=dict(parts=[{'rt': r} for r in (1, 2)], budget=150))
def c05_long_name(nl: int, c1: int, disc: int, rt: int) -> str:
    """a RESOLVE / RESOLVE_PTR success reply that carries a DOMAINNAME of 0..255 octets (lengths around the signed-byte boundary), cut at
    one symbolic offset"""
    nl = api.pick_from(nl, _LONG)
    with api.no_tracing():
        name = bytes(97 + (i % 26) for i in range(nl))
        s = b'\x05\x00' + b'\x05\x00\x00\x03' + bytes([nl]) + name + b'\x00\x00'
        offs = sorted(set(o for o in (0, 1, 2, 5, 6, 7, 8, 9, 7 + nl // 2, 6 + nl, 7 + nl, 8 + nl, len(s) - 1, len(s)) if 0 <= o <= len(s)))
    c1 = api.pick_from(c1, offs)       # cut points around the header, the length octet, the middle and the end of the name
    disc = api.pick(disc, 0, 2)
    with api.no_tracing():
        return _run(RT[rt], s, [c1], disc)
