"""C02 -- 650 events reach exactly their listeners, in order, and never touch replies.

Real code: _broadcast_response -> _handle_notify, Event.listen/unlisten/got_update,
add_event_listener/remove_event_listener, and the per-line-callback routing in
_start_command/_accumulate_response/_accumulate_multi_response.  Symbolic: wire form and name of
each event, listener behaviours (record / raise / unsubscribe self / unsubscribe the next
listener), whether a second event follows, plain vs per-line-callback command.
"""
from vlib import prelude
from vlib.api import cond, assume, reached, R
from vlib import api, fakes
from vlib import ref_control as rc

prelude.install()
from txtorcon.torcontrolprotocol import TorProtocolError  # noqa: E402

PROPERTY = 'C02'
ASSUMPTIONS = [
    'protocol object real, valid events installed through the real _set_valid_events; transport = list-recording double',
    'events arrive between replies: before the in-flight command\'s reply starts, or when idle (as Tor sends them)',
    'the harness answers every SETEVENTS txtorcon writes with 250 OK',
    'an event goes to the listeners registered when it arrives (a listener removed during the delivery still sees that event); '
    'three-valued: the payload of a data-block event may or may not end with the text of the closing 650 OK line',
]
BOUNDS = {'quick': {'listeners': 3, 'events': '1..2', 'wire_forms': '5 (single line, bare name, text starting with a blank, mid+end lines, data block)', 'queue_states': 3, 'reply_shapes': '3 (mid+final), 5 (data block), 2 (5xx)', 'subscription_operations': 5},
          'thorough': {'listeners': 3, 'events': '1..3', 'subscription_operations': 6}}
OUTSIDE = ['events arriving inside a reply', 'listener callbacks that re-enter queue_command other than through remove_event_listener',
           'more than 3 listeners / 3 events']

SUB = 'CIRC'
UNSUB = 'STREAM'


def event_wire(form, name, tag):
    """-> (wire lines, payload lines).  tag distinguishes consecutive events."""
    if form == 0:
        return (['650 %s %s one' % (name, tag)], ['%s one' % tag])
    if form == 1:
        return (['650-%s %s first' % (name, tag), '650-second=2', '650 third'], ['%s first' % tag, 'second=2', 'third'])
    if form == 4:
        # the text after the name begins with a blank of its own (two blanks on the wire)
        return (['650 %s  %s indented' % (name, tag)], [' %s indented' % tag])
    if form == 3:
        # an event that consists of its name only (control-spec: "650 DESCCHANGED"): the listener hears an empty text
        return (['650 %s' % name], [''])
    # the text of every line of the event is its payload, the end line's too (here that text is "OK", as for every event
    # whose end line is "650 OK"; listeners such as parse_keywords skip it, but it is what Tor sent)
    return (['650+%s %s head' % (name, tag), 'data 1', '..dotted', ' .', '250 OK', '.', '650 OK'],
            ['%s head' % tag, 'data 1', '.dotted', ' .', '250 OK', 'OK'])


class L(object):
    def __init__(self, idx, behaviour, world):
        self.idx = idx
        self.behaviour = behaviour
        self.world = world
        self.log = []

    def __call__(self, data):
        self.log.append(data)
        w = self.world
        if self.behaviour == 1:
            raise RuntimeError('listener %d raises {about: %r}' % (self.idx, data[:8]))     # (an error text with braces and a piece of the payload)
        if self.behaviour == 2:
            w.p.remove_event_listener(SUB, self.handle())
        if self.behaviour == 3:
            nxt = w.listeners[(self.idx + 1) % len(w.listeners)]
            w.p.remove_event_listener(SUB, nxt.handle())

    def on(self, data):
        return self(data)

    def handle(self):
        """what is registered / removed: the callable object itself (even index) or its bound method `on`, which is a
        fresh, equal-but-not-identical object at every mention (odd index)"""
        return self if self.idx % 2 == 0 else self.on


class World(object):
    pass


def _pump(w):
    """answer every complete SETEVENTS line txtorcon has written since the last pump"""
    while True:
        data = b''.join(w.t.chunks)
        lines = data.split(b'\r\n')[:-1]
        if w.answered >= len(lines):
            return
        ln = lines[w.answered]
        w.answered += 1
        if ln.startswith(b'SETEVENTS'):
            w.setevents.append(ln.decode('ascii'))
            w.p.lineReceived(b'250 OK')
        # the data command's reply is delivered by the scenario itself


def _scenario(q, shape, forms, names, behaviours):
    w = World()
    w.p, w.t = fakes.new_protocol()
    w.answered = 0
    w.setevents = []
    w.listeners = []
    with api.no_tracing():
        w.p._set_valid_events('CIRC STREAM HS_DESC ORCONN')
    nl = len(behaviours)
    # reference state: registered[i], and per listener a list of (payload, MUST/MAY)
    registered = [True] * nl
    expect = [[] for _ in range(nl)]
    sub_changes = 0
    try:
        for i in range(nl):
            li = L(i, behaviours[i], w)
            w.listeners.append(li)
            w.p.add_event_listener(SUB, li.handle())
        sub_changes += 1
        _pump(w)
        cmd = None
        cb_lines = []
        if q != 0:
            cmd = fakes.Outcome(w.p.queue_command('GETINFO thing', cb_lines.append if q == 2 else None))
            w.answered += 1     # the GETINFO line itself (answered below)
        for k in range(len(forms)):
            name = SUB if names[k] == 0 else UNSUB
            wire, payload = event_wire(forms[k], name, 'ev%d' % k)
            snapshot = [i for i in range(nl) if registered[i]]
            had_any = any(registered)
            if name == SUB:
                # "registered for that event name at that moment": everybody in the snapshot gets it,
                # also a listener that an earlier listener removes during this very delivery
                for i in snapshot:
                    expect[i].append((payload, 'MUST'))
                    b = behaviours[i]
                    if b == 2:
                        registered[i] = False
                    if b == 3:
                        registered[(i + 1) % nl] = False
                if had_any and not any(registered):
                    sub_changes += 1
            for ln in wire:
                w.p.lineReceived(ln.encode('ascii'))
            if cmd is not None and cmd.fired:
                return R('event-resolved-the-in-flight-command', 'event %d form %d', k, forms[k])
            if cb_lines:
                return R('event-lines-went-to-the-per-line-callback', 'event %d form %d: %r', k, forms[k], cb_lines)
        # now Tor answers the command
        if cmd is not None:
            wire, code, texts, final = rc.render(shape, 'xx', 'yy', '.d')
            for ln in wire:
                w.p.lineReceived(ln.encode('ascii'))
        _pump(w)
    except Exception as e:
        return R('exception', '%s: %s', type(e).__name__, e)
    # (i) non-interference
    if cmd is not None:
        if cmd.fired != 1:
            return R('command-fired-%d-times' % cmd.fired)
        if 200 <= code < 300:
            if cmd.ok != 1:
                return R('command-failed-although-2xx')
            if q == 2:
                if not rc.callback_lines_ok(cb_lines, texts, final):
                    return R('callback-lines-changed-by-events', 'want %r got %r', texts, cb_lines)
            elif cmd.value not in rc.success_texts(texts, final):
                return R('reply-text-changed-by-events', 'want %r got %r', rc.success_texts(texts, final), cmd.value)
        else:
            if cmd.err != 1 or not isinstance(cmd.exc(), TorProtocolError) or cmd.exc().code != code:
                return R('5xx-outcome-changed-by-events')
    # (ii) listener logs
    for i in range(nl):
        log = list(w.listeners[i].log)
        pos = 0
        for payload, mode in expect[i]:
            base = '\n'.join(payload)
            ok_here = pos < len(log) and log[pos] == base
            if mode == 'MUST':
                if not ok_here:
                    return R('listener-missed-or-garbled-event', 'listener %d (behaviour %d) want %r, log %r', i, behaviours[i], base, log)
                pos += 1
            elif ok_here:
                pos += 1
        if pos != len(log):
            return R('listener-got-unexpected-delivery', 'listener %d log %r expected %r', i, log, expect[i])
    # (iii) subscription command
    if len(w.setevents) != sub_changes:
        return R('wrong-number-of-SETEVENTS', 'want %d got %r', sub_changes, w.setevents)
    last = w.setevents[-1].split()[1:]
    want = [SUB] if any(registered) else []
    if sorted(last) != want:
        return R('SETEVENTS-does-not-list-current-names', 'want %r got %r', want, w.setevents[-1])
    reached()
    return ''


_Q = [{'q': q, 'shape': sh, 'f1': f} for q in range(3) for sh in ((0,) if q == 0 else (3, 5, 2, 10)) for f in range(5 if q == 0 else 3)]


@cond(quick=dict(parts=_Q, budget=100), thorough=dict(parts=_Q, budget=300))
def c02_two_events(f1: int, f2: int, n1: int, n2: int, two: bool, b1: int, b2: int, b3: int, q: int, shape: int) -> str:
    """1-2 events (forms f1,f2; names subscribed/unsubscribed) with 3 listeners of symbolic behaviour, queue state q"""
    f2 = api.pick(f2, 0, 4)
    n1 = api.pick(n1, 0, 1)
    n2 = api.pick(n2, 0, 1)
    b1 = api.pick(b1, 0, 3)
    b2 = api.pick(b2, 0, 3)
    b3 = api.pick(b3, 0, 3)
    if not two:
        assume(f2 == 0 and n2 == 0)
    forms = [f1, f2] if two else [f1]
    names = [n1, n2] if two else [n1]
    return _scenario(q, shape, forms, names, [b1, b2, b3])


def _sub_scenario(ops):
    """ops: list of op codes.  0/1: add listener A/B to CIRC, 2/3: remove A/B from CIRC, 4: add listener C to STREAM,
    5: remove C from STREAM, 6: Tor answers the oldest unanswered command (250 OK), 7: Tor emits a CIRC event."""
    w = World()
    w.p, w.t = fakes.new_protocol()
    with api.no_tracing():
        w.p._set_valid_events('CIRC STREAM HS_DESC ORCONN')
    logs = {'A': [], 'B': [], 'C': []}

    class Party(object):
        """a listener given as a bound method: `party.on_event` is a fresh (equal, not identical) object at every mention"""
        def __init__(self, log):
            self.log = log

        def on_event(self, data):
            self.log.append(data)
    parties = {'A': Party(logs['A']), 'C': Party(logs['C'])}
    stored_b = logs['B'].append       # B: one stored callable

    def cb_of(k):
        return stored_b if k == 'B' else parties[k].on_event
    reg = {'A': False, 'B': False, 'C': False}
    answered = 0
    want_events = {'A': 0, 'B': 0, 'C': 0}
    tor_subscribed = set()       # what Tor believes (last SETEVENTS it has acknowledged)
    try:
        for op in ops:
            if op in (0, 1):
                k = 'AB'[op]
                if reg[k]:
                    continue
                w.p.add_event_listener('CIRC', cb_of(k))
                reg[k] = True
            elif op in (2, 3):
                k = 'AB'[op - 2]
                if not reg[k]:
                    continue
                w.p.remove_event_listener('CIRC', cb_of(k))
                reg[k] = False
            elif op == 4:
                if reg['C']:
                    continue
                w.p.add_event_listener('STREAM', cb_of('C'))
                reg['C'] = True
            elif op == 5:
                if not reg['C']:
                    continue
                w.p.remove_event_listener('STREAM', cb_of('C'))
                reg['C'] = False
            elif op == 6:
                lines = b''.join(w.t.chunks).split(b'\r\n')[:-1]
                if answered < len(lines):
                    ln = lines[answered].decode('ascii')
                    answered += 1
                    if not ln.startswith('SETEVENTS'):
                        return R('unexpected-command', '%r', ln)
                    tor_subscribed = set(ln.split()[1:])
                    w.p.lineReceived(b'250 OK')
            else:
                # Tor only emits events it was asked for
                if 'CIRC' in tor_subscribed:
                    for k in 'AB':
                        if reg[k]:
                            want_events[k] += 1
                    w.p.lineReceived(b'650 CIRC 1 LAUNCHED')
        # quiesce: Tor answers everything still outstanding
        while True:
            lines = b''.join(w.t.chunks).split(b'\r\n')[:-1]
            if answered >= len(lines):
                break
            ln = lines[answered].decode('ascii')
            answered += 1
            if not ln.startswith('SETEVENTS'):
                return R('unexpected-command', '%r', ln)
            tor_subscribed = set(ln.split()[1:])
            w.p.lineReceived(b'250 OK')
    except Exception as e:
        return R('exception', '%s: %s', type(e).__name__, e)
    names = set()
    if reg['A'] or reg['B']:
        names.add('CIRC')
    if reg['C']:
        names.add('STREAM')
    if tor_subscribed != names:
        return R('subscription-Tor-was-given-differs-from-names-with-listeners', 'tor has %r, listeners on %r (ops %r)',
                 sorted(tor_subscribed), sorted(names), ops)
    for k in 'ABC':
        if len(logs[k]) != want_events[k]:
            return R('listener-event-count-wrong', 'listener %s got %d want %d (ops %r)', k, len(logs[k]), want_events[k], ops)
    reached()
    return ''


_SUBP = [{'o1': a, 'o2': b} for a in (0, 4) for b in range(8)]


@cond(quick=dict(parts=_SUBP, budget=120))
def c02_subscription(o1: int, o2: int, o3: int, o4: int, o5: int) -> str:
    """5 subscribe / unsubscribe / acknowledge / event operations in any order (acknowledgements may lag)"""
    ops = [o1, o2] + [api.pick(o, 0, 7) for o in (o3, o4, o5)]
    with api.no_tracing():       # every choice is concrete by now
        return _sub_scenario(ops)


@cond(thorough=dict(parts=_SUBP, budget=900))
def c02_subscription6(o1: int, o2: int, o3: int, o4: int, o5: int, o6: int) -> str:
    """6 operations (7 did not finish inside 900 CPU-s per partition: 8^5 orders each)"""
    ops = [o1, o2] + [api.pick(o, 0, 7) for o in (o3, o4, o5, o6)]
    with api.no_tracing():
        return _sub_scenario(ops)
