#!/usr/bin/env python3
"""Regenerate MANIFEST.json from the per-property table below (single source of truth)."""
import json, os, glob
HERE = os.path.dirname(os.path.dirname(os.path.abspath(__file__)))

TECH = 'bounded symbolic execution of the real txtorcon code (CrossHair 0.0.110 path exploration, every branch decided by z3); counterexamples replayed natively'
LEVEL_TEXT = ('Bounded symbolic model checking: the harness drives the real txtorcon functions with z3-backed symbolic inputs / '
              'schedule choices; a partition is discharged only when CrossHair exhausts the path tree (each remaining branch '
              'alternative shown infeasible by z3). Holds for every value inside the stated bounds, says nothing outside them. ')

# property -> (design section, note)  -- only properties with a harness module are claimed
NOTES = {
 'C01': ('DESIGN.md 3/C01', 'real protocol + FSM, list transport; Tor-side reply model (vlib/ref_control.py); schedules: symbolic submission points/flags over 8 reply shapes, 2 (quick) / 3 (thorough) commands + depth-4 tuples; text: symbolic fragments <=3 chars and all 2xx/5xx codes; segmentation: 2-3 cut offsets concretised exhaustively then delivered through the real dataReceived; per-line callbacks that return values'),
 'C02': ('DESIGN.md 3/C02', 'real protocol; events of 5 wire forms (exact payload, the end line included) x subscribed/unsubscribed names before the in-flight reply / when idle; 3 listeners with symbolic behaviours incl. unsubscribing during delivery; SETEVENTS answered by the harness, acknowledgements may lag (5 quick / 6 thorough subscribe-unsubscribe-event operations)'),
 'C03': ('DESIGN.md 3/C03', 'real protocol, list transport; 12 pre-loss states built by a real session prefix (incl. AUTHENTICATE / QUIT outstanding, identical command texts, callers that attach callbacks only after the loss), symbolic partial line / reason / post-loss commands / notification requests'),
 'C04': ('DESIGN.md 3/C04', 'real protocol from makeConnection on; open()/os.urandom stubbed; Tor played by a reference script answering what was actually written; method mask/order, cookie condition/length, provider kind, one server fault per run; COOKIEFILE escapes; unescape round-trip over a critical alphabet'),
 'C05': ('DESIGN.md 3/C05', 'struct shim; list transport; reply header fields / cut point / disconnect point symbolic; oracle = independent RFC 1928 reply-stream parser; exception escaping dataReceived is followed by connectionLost as in Twisted; error class per RFC 1928 code; late observers; up to 70000 coalesced application bytes'),
 'C06': ('DESIGN.md 3/C06', 'struct replaced by a validated pure-Python shim; symbolic hostnames start with g and use contract stubs for ipaddress/inet_pton; oracle = independent RFC 1928 request decoder; IPv6 CONNECT truncation is a listed known finding; public entry points (resolve, resolve_ptr, TorSocksEndpoint) with str and bytes targets'),
 'C07': ('DESIGN.md 3/C07', 'real TorState(bootstrap=False); histories = bounded symbolic event choices admitted by the Tor-side reference model (vlib/ref_tor.py), after the empty state and after 5 snapshots installed through _circuit_status/_stream_status (34-event alphabet incl. EXTENDED on a BUILT circuit, keyword sets that change between events); monitors after every event'),
 'C08': ('DESIGN.md 3/C08', 'C07 objects plus recording listener doubles; listener add/remove positions, wait requests and the position of the close acknowledgement relative to the CLOSED event are symbolic choices; a listener attached from inside the *_new notification; close with and without the IfUnused flag'),
 'C09': ('DESIGN.md 3/C09', 'real TorState/attacher plumbing; harness acknowledges SETCONF/ATTACHSTREAM; attacher answer kind / delivery mode / stream kind symbolic; via-circuit: every causally possible order of 8 events for two concurrent TorCircuitEndpoint.connect calls and an unrelated stream, SOCKS leg faked; circuit closing / SOCKS leg failing with the local port re-used; PriorityAttacher; NEWRESOLVE streams'),
 'C10': ('DESIGN.md 3/C10', 'real TorConfig bootstrapped against SimTor; 4 (quick) / 5 (thorough) operations from assign / in-place list ops / accepted and rejected saves per option kind; SETCONF decoded by the reference kvline grammar and applied to the SimTor store; emptied-list clearing is a listed known finding; one option of each of 16 type names; announcements from another controller'),
 'C11': ('DESIGN.md 3/C11', 'real TorConfig bootstrapped against SimTor (vlib/simtor.py) through the real protocol; one option per declared type in states unset/one/two values with symbolic values; CONF_CHANGED (one or two options, resets) / local edit / list assignment / save sequences; an event at every point of the bootstrap'),
 'C12': ('DESIGN.md 3/C12', 'list-recording transport double; oracle = reference decoder of tor kvline grammar; values <=3 (quick) / <=4 (thorough) chars over printable ASCII+TAB/CR/LF, 1-3 pairs incl. repeated keys'),
 'C13': ('DESIGN.md 3/C13', 'reply rendered by a reference encoder (control-spec) and delivered as whole lines through the real lineReceived (get_info, get_info_single, get_conf, get_conf_single); values <=3/4 chars printable ASCII; two known findings carved out and re-checked by witnesses'),
 'C14': ('DESIGN.md 3/C14', 'Ephemeral(Authenticated)OnionService.create on a TorConfig bootstrapped against SimTor; option product chosen by the solver per (version, key kind, clients) partition; ADD_ONION decoded by an independent control-spec 3.27 parser; key custody and DEL_ONION checked on the service object; bare client names of 1/2/3-5 characters'),
 'C15': ('DESIGN.md 3/C15', 'EphemeralOnionService.create on a TorConfig bootstrapped against SimTor; HS_DESC event sequences (3 mixed + 5 own quick / 4 mixed + 6 own thorough) x own/foreign service x directories, ephemeral and filesystem service, reply position and waiting mode symbolic; three-valued attempt-level reference; foreign-UPLOADED completion is a listed known finding'),
 'C16': ('DESIGN.md 3/C16', 'documents built from a relay table by a reference builder; first via the real get_info_incremental(ns/all) reply path, later ones as real 650+NEWCONSENSUS events; one relay fully varied per document (presence, nickname, flags, a/w/p lines, bandwidth), a second sharing its nickname; identity codecs on 20-byte ids with one symbolic byte'),
 'C17': ('DESIGN.md 3/C17', 'TCPHiddenServiceEndpoint on a recording MemoryReactorClock, real onion-service creation against SimTor; a failure injected at each of 6 steps of listen() (ephemeral services), caller local_port, retry after failure, a second service publishing during the wait; constructor option table; the same combinations through the onion: parser / system_tor / global_tor / private_tor; basic authentication; filesystem-service listen() outside'),
 'C18': ('DESIGN.md 3/C18', '_create_socks_endpoint, TorConfig.create_socks_endpoint and TorConfig.socks_endpoint against SimTor through the real protocol; existing configuration (0..2 entries of 5 forms) x request (7 kinds) chosen by the solver; SETCONF decoded by the reference kvline grammar; fallback ports with a connect-outcome double'),
 'C19': ('DESIGN.md 3/C19', 'real TorProcessProtocol with doubles for process transport, clock, control connection and control protocol; every causally possible sequence (5 from start / 4 after bootstrap quick; 6/5 thorough) of 13 event kinds, selected by a solver-chosen index; real launch() with reactor / file-system doubles for the temp-dir clause; one control-protocol double per connection (reconnect after a rejected ownership command)'),
 'C20': ('DESIGN.md 3/C20', 'datetime replaced by an int-backed shim validated against timedelta; integer-time task.Clock; TZ=UTC; <=3 steps, 2 names, offsets -10s..3d; also through a real TorState (bootstrap listing + ADDRMAP events) and with two lines in one reactor turn'),
}
PENDING_REASON = 'check not built yet (work in progress this round); no claim is made'

def main():
    props = [json.loads(l) for l in open(os.path.join(HERE, 'properties.jsonl'))]
    checks, na = [], []
    for p in props:
        pid = p['id']
        has = glob.glob(os.path.join(HERE, 'harness', pid.lower() + '_*.py'))
        if has and pid in NOTES:
            ref, note = NOTES[pid]
            checks.append({
                'property_id': pid,
                'quick_cmd': './vt check %s --tier quick' % pid,
                'thorough_cmd': './vt check %s --tier thorough' % pid,
                'evidence_file': '/verif/evidence/%s.json' % pid,
                'replay_cmd_template': './vt replay {path}',
                'engine': 'crosshair+z3',
                'level_claimed': {'category': 'model_checking', 'text': LEVEL_TEXT, 'design_ref': ref},
                'level_note': 'Trusted: CPython 3.12, CrossHair tracer and its str/bytes/int models, z3, Twisted test doubles, the reference oracle. ' + note,
                'technique': TECH,
            })
        else:
            na.append({'property_id': pid, 'reason': NA.get(pid, PENDING_REASON)})
    m = {
        'version': 1,
        'setup_cmd': './vt setup',
        'hooks': {
            'guard': 'TXTORCON_VERIF',
            'enable': 'none needed: every stub is installed from the harness side by assignment into module namespaces; /repo is imported as is (VERIF_REPO overrides the path)',
            'baseline_off_cmd': 'cd /repo && /venv/bin/python -m pytest -ra -q -p no:cacheprovider --timeout=900 --continue-on-collection-errors',
            'source_commits': [],
            'add_only': True,
        },
        'engines': [{'name': 'crosshair+z3', 'path': '/verif/vlib/worker.py',
                     'serves_properties': [c['property_id'] for c in checks],
                     'kind_free_text': 'symbolic execution of Python (CrossHair 0.0.110) with z3; own exploration loop collecting all counterexamples, native replay, known-finding matching'}],
        'checks': checks,
        'not_applicable': na,
        'notes': 'All checks: ./vt check <id> --tier quick|thorough ; exit 0 ok, 1 VIOLATION, 2 infrastructure error. See DESIGN.md.',
    }
    with open(os.path.join(HERE, 'MANIFEST.json'), 'w') as f:
        json.dump(m, f, indent=1)
    print('claimed', [c['property_id'] for c in checks])

NA = {}
if __name__ == '__main__':
    main()
