#!/bin/bash
# usage: tools/mutcheck.sh <prop> <sed-expr> <file-relative-to-repo> [tier]
# Copies /repo to a scratch tree, applies the sed expression, runs the check there, removes the tree.
set -u
PROP=$1; EXPR=$2; FILE=$3; TIER=${4:-quick}
D=$(mktemp -d /tmp/mut.XXXXXX)
rsync -a --exclude .git --exclude '__pycache__' /repo/ "$D/"
sed -i "$EXPR" "$D/$FILE"
if diff -q /repo/$FILE "$D/$FILE" >/dev/null; then echo "MUTANT DID NOT CHANGE THE FILE"; rm -rf "$D"; exit 3; fi
diff -u /repo/$FILE "$D/$FILE" | head -20
VERIF_EVIDENCE_DIR="$D/.evidence" VERIF_REPO="$D" /verif/vt check "$PROP" --tier "$TIER" | grep -v "^KNOWN-FINDING" | tail -6
rc=${PIPESTATUS[0]}
rm -rf "$D"
echo "rc=$rc"
