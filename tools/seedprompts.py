#!/usr/bin/env python3
"""Write one prompt file per property for a new wave of seeding sub-agents.

usage: tools/seedprompts.py <suffix> [Cnn ...]     e.g.  tools/seedprompts.py d C01 C02
Creates /tmp/seed/<Cnn>.prompt and expects the caller to create the scratch worktree
/tmp/seed/<Cnn><suffix> (git -C /repo worktree add --detach ...) and /tmp/seed/<Cnn><suffix>-out.
The prompt carries only the property text and one-line summaries of what earlier sub-agents
changed (from seeded/*/meta.json 'summary'), nothing about the checks.
"""
import glob
import json
import os
import sys

HERE = os.path.dirname(os.path.dirname(os.path.abspath(__file__)))


def main():
    suffix = sys.argv[1]
    only = sys.argv[2:]
    props = {}
    for l in open(os.path.join(HERE, 'properties.jsonl')):
        d = json.loads(l)
        props[d['id']] = d
    os.makedirs('/tmp/seed', exist_ok=True)
    for pid, d in props.items():
        if only and pid not in only:
            continue
        prev = []
        for f in sorted(glob.glob(os.path.join(HERE, 'seeded', '%s-m*' % pid, 'meta.json'))):
            m = json.load(open(f))
            prev.append('- ' + (m.get('summary') or '')[:350].replace('\n', ' '))
        w = '/tmp/seed/%s%s' % (pid, suffix)
        txt = f"""You are helping test a verification effort for the Python project txtorcon (a Twisted client for Tor's control protocol). Your job is to play the role of a developer who introduces a realistic, subtle regression.

Your own scratch git worktree of the project is at {w} (work ONLY there; never touch /repo or /verif; do not commit anything). Python with all dependencies: /venv/bin/python. Test command (run from the worktree root): /venv/bin/python -m pytest -q -p no:cacheprovider --timeout=900 2>&1 | tail -3 . On the unchanged tree it reports "3 failed, 678 passed" (the 3 failures are pre-existing and unrelated). There is no network.

The semantic property that users rely on:

  id: {pid}
  title: {d['title']}
  statement: {d['statement']}
  holds for: {d['quantifier']['text']}
  code anchors: {json.dumps(d['anchors']['mechanism'])}

TASK: produce TWO different code changes (m1 and m2), each of which
  * is a small, plausible edit a real developer could make (refactor slip, wrong boundary, reordered statements, over-eager optimisation, mishandled corner case) - not sabotage that any reviewer would spot at a glance, and not a syntax error;
  * makes the property above FALSE for some inputs / schedules / histories, but only under a SPECIFIC circumstance (a particular value, ordering, option combination, boundary) - ordinary use keeps working;
  * still imports/compiles and leaves the test-suite result unchanged (still exactly "3 failed, 678 passed");
  * uses a mechanism DIFFERENT from these changes that were already produced for this property by earlier rounds (do not repeat them or trivial variants):
{chr(10).join(prev)}
  Prefer code paths, clauses of the statement, option kinds, entry points or event kinds that the list above has not touched yet; read the statement's "holds for" line for ideas.

For each change write three files into {w}-out/m1/ and {w}-out/m2/ :
  * patch.diff  - `git diff` of the change against the clean worktree (must apply with `git apply` from the worktree root);
  * demo.py     - a standalone script, run as `/venv/bin/python demo.py` from the root of a checkout (it must put os.getcwd() first on sys.path and import txtorcon from there), that exercises the real txtorcon code (no network, no real Tor; use Twisted test doubles such as StringTransport / MemoryReactorClock / task.Clock or txtorcon.testutil) and exits 1 printing what went wrong when the property is violated, and exits 0 when it holds. It must exit 0 on the unchanged tree and 1 with your change applied;
  * meta.json   - {{"property": "{pid}", "summary": "<what the change does>", "needs": "<the specific circumstance needed for it to show>", "files": [...], "tests_result": "<tail line of pytest with the change>"}}.

Procedure: make change 1 in the worktree, run the tests, run your demo, save the files, then `git checkout -- .` and verify the demo exits 0 on the clean tree; repeat for change 2. At the end leave the worktree clean (`git checkout -- . && git clean -fdq`). Report briefly what each change is and what it needs to show.
"""
        open('/tmp/seed/%s.prompt' % pid, 'w').write(txt)
        print(pid, len(prev), 'earlier changes listed')


if __name__ == '__main__':
    main()
