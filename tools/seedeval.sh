#!/bin/bash
# usage: tools/seedeval.sh <prop> <src-dir-with patch.diff demo.py meta.json> <name> [tier]
# Confirms a seeded change in a scratch copy of /repo (tests still green, demo fails with / passes without),
# runs the check against it, and files it under /verif/seeded/<name>/.
set -u
PROP=$1; SRC=$2; NAME=$3; TIER=${4:-quick}
OUT=/verif/seeded/$NAME
D=$(mktemp -d /tmp/seedeval.XXXXXX)
rsync -a --exclude .git --exclude '__pycache__' /repo/ "$D/"
( cd "$D" && patch -p1 -s < "$SRC/patch.diff" ) || { echo "PATCH DOES NOT APPLY"; rm -rf "$D"; exit 3; }
TESTS=$(cd "$D" && /venv/bin/python -m pytest -q -p no:cacheprovider --timeout=900 2>&1 | tail -1)
( cd "$D" && timeout 300 /venv/bin/python "$SRC/demo.py" >/tmp/seedeval.demo.with 2>&1 ); DW=$?
( cd /repo && timeout 300 /venv/bin/python "$SRC/demo.py" >/tmp/seedeval.demo.without 2>&1 ); DWO=$?
CHK=$(VERIF_EVIDENCE_DIR="$D/.evidence" VERIF_REPO="$D" /verif/vt check "$PROP" --tier "$TIER" 2>&1 | grep -v "^KNOWN-FINDING"); 
RC=$(echo "$CHK" | grep -c "^VIOLATION")
rm -rf "$D"
echo "tests: $TESTS"; echo "demo with=$DW without=$DWO"; echo "$CHK" | grep -E "violation:|INFRA|partitions" | head -6
mkdir -p "$OUT"; cp "$SRC/patch.diff" "$SRC/demo.py" "$OUT/"
/venv/bin/python - "$SRC/meta.json" "$OUT/meta.json" "$PROP" "$TESTS" "$DW" "$DWO" "$RC" "$TIER" <<'PY'
import json, sys
src, out, prop, tests, dw, dwo, rc, tier = sys.argv[1:9]
try:
    m = json.load(open(src))
except Exception:
    m = {}
m['property'] = prop
m['confirmed'] = {
  'how': 'scratch copy of /repo (rsync, patch -p1), full pytest suite, demo.py with and without the change, then `VERIF_REPO=<copy> ./vt check %s --tier %s`' % (prop, tier),
  'tests_with_change': tests, 'demo_exit_with_change': int(dw), 'demo_exit_without_change': int(dwo),
  'check_violation_lines': int(rc), 'detected': int(rc) > 0, 'tier': tier}
json.dump(m, open(out, 'w'), indent=1)
PY
echo "detected=$RC"
