"""Reference model of control-spec replies (server side) -- no txtorcon code.

A reply is described by a shape number and the symbolic text fragments x, y, d.
render(shape, x, y, d) -> (wire_lines, code, texts, final_text)
   wire_lines : what Tor writes (without CRLF); data lines dot-stuffed
   code       : status code of the reply
   texts      : the reply's line texts in order, before the final status line:
                mid-line texts, the text of a data-start line, the raw data lines
   final_text : text of the final status line
"""

NSHAPES = 8          # shapes 8 and 9 (symbolic status code) are used by the text conditions only
SHAPES = [0, 1, 2, 3, 4, 5, 6, 7, 10]     # the reply shapes used by the schedule / text / segmentation conditions


def stuff(line):
    return '.' + line if line.startswith('.') else line


def render(shape, x, y, d, cd='50'):
    if shape == 8:      # single-line success with an arbitrary 2xx code
        return (['2' + cd + ' ' + x], 200 + (ord(cd[0]) - 48) * 10 + (ord(cd[1]) - 48), [], x)
    if shape == 9:      # single-line failure with an arbitrary 5xx code
        return (['5' + cd + ' ' + x], 500 + (ord(cd[0]) - 48) * 10 + (ord(cd[1]) - 48), [], x)
    if shape == 10:     # data block that is NOT the last part of the reply: mid line and a second block follow
        return (['250+f='] + [stuff(z) for z in [d, 'b']] + ['.', '250-s=' + x, '250+t=', stuff(d), '.', '250 OK'],
                250, ['f=', d, 'b', 's=' + x, 't=', d], 'OK')
    if shape == 0:
        return (['250 OK'], 250, [], 'OK')
    if shape == 1:
        return (['250 ' + x], 250, [], x)
    if shape == 2:
        return (['552 ' + x], 552, [], x)
    if shape == 3:
        return (['250-' + x, '250 OK'], 250, [x], 'OK')
    if shape == 4:
        return (['250-a=' + x, '250-b', '250 ' + y], 250, ['a=' + x, 'b'], y)
    if shape == 5:
        data = [d, '250 OK', '650 x', '552-y']
        return (['250+key='] + [stuff(z) for z in data] + ['.', '250 OK'], 250, ['key='] + data, 'OK')
    if shape == 6:
        data = [d]
        return (['250-v=' + x, '250+k='] + [stuff(z) for z in data] + ['.', '250 OK'], 250, ['v=' + x, 'k='] + data, 'OK')
    if shape == 7:
        return (['552-' + x, '552 ' + y], 552, [x], y)
    raise AssertionError(shape)


def nlines(shape):
    return [1, 1, 1, 2, 3, 7, 5, 2, 1, 1, 9][shape]


def success_texts(texts, final):
    """acceptable success values for a plain command (three-valued on a sole '250 OK')"""
    if final == 'OK':
        full = '\n'.join(texts)
        if not texts:
            return [full, 'OK']
        return [full]
    return ['\n'.join(texts + [final])]


def callback_lines_ok(got, texts, final):
    """per-line callback must have seen exactly the reply's lines in order; whether it also sees
    the final status line's text is not fixed by the statement (three-valued)"""
    return got == texts or got == texts + [final]
