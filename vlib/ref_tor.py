"""Tor-side reference model for circuits and streams (control-spec 4.1.1 / 4.1.2):
which event Tor may emit next for a bounded population, the event's wire text, and what a
controller's view must then be.  No txtorcon code."""

RA = '$' + 'A' * 40      # in the consensus
RB = '$' + 'B' * 40      # in the consensus
RX = '$' + 'C' * 40      # NOT in the consensus
LONG = {RA: RA + '~relaya', RB: RB + '=relayb', RX: RX + '~ghost'}

C_LAUNCHED, C_EXT1, C_EXT2, C_BUILT, C_CLOSED, C_FAILED, C_BUILT_ALT, C_EXT_BUILT = range(8)
S_NEW, S_SENT1, S_SENT2, S_REMAP, S_SUCC, S_DETACH, S_CLOSED, S_FAILED, S_REMAP0 = range(9)
NC = 8
NS = 9
CNAMES = ['LAUNCHED', 'EXTENDED', 'EXTENDED', 'BUILT', 'CLOSED', 'FAILED', 'BUILT', 'EXTENDED']
SNAMES = ['NEW', 'SENTCONNECT', 'SENTCONNECT', 'REMAP', 'SUCCEEDED', 'DETACHED', 'CLOSED', 'FAILED', 'REMAP']


class TorModel(object):
    def __init__(self, ncirc=2, nstream=2):
        self.ncirc = ncirc
        self.nstream = nstream
        self.circ = {}       # id -> dict(status, path, gen, flags)
        self.stream = {}     # id -> dict(status, target, on=(cid, gen) or None, addr, source)
        self.gen = 0
        self.log = []        # expected listener notifications of the last event

    # ---- event numbering: 0 .. ncirc*NC-1 circuit events, then stream events
    def nevents(self):
        return self.ncirc * NC + self.nstream * NS

    def decode(self, e):
        if e < self.ncirc * NC:
            return ('C', e // NC + 1, e % NC)
        e -= self.ncirc * NC
        return ('S', e // NS + 1, e % NS)

    def _circ_live(self, cid):
        return cid in self.circ

    def enabled(self, e):
        kind, oid, ev = self.decode(e)
        if kind == 'C':
            c = self.circ.get(oid)
            if c is None:
                return ev == C_LAUNCHED
            st = c['status']
            if st == 'LAUNCHED':
                return ev in (C_EXT1, C_FAILED)
            if st == 'EXTENDED':
                # C_BUILT_ALT: BUILT reported with a hop list that is not an extension of the last one (Tor always
                # reports the full current path; a controller must take it as it is)
                if len(c['path']) == 1:
                    return ev in (C_EXT2, C_BUILT, C_FAILED, C_BUILT_ALT)
                return ev in (C_BUILT, C_FAILED, C_BUILT_ALT)
            if st == 'BUILT':
                # C_EXT_BUILT: Tor cannibalises a built circuit and adds a hop: EXTENDED (with another purpose), then BUILT again
                return ev == C_CLOSED or (ev == C_EXT_BUILT and len(c['path']) < 4)
            return False
        s = self.stream.get(oid)
        if s is None:
            return ev == S_NEW
        if s['on'] is None:
            if ev in (S_SENT1, S_SENT2):
                cid = 1 if ev == S_SENT1 else 2
                c = self.circ.get(cid)
                return cid <= self.ncirc and c is not None and c['status'] == 'BUILT'
            return ev in (S_CLOSED, S_FAILED)
        cid, gen = s['on']
        alive = cid in self.circ and self.circ[cid]['gen'] == gen
        if alive:
            # S_REMAP0: an event that reports the stream on circuit 0 (no longer on any circuit) without a DETACHED
            return ev in (S_REMAP, S_SUCC, S_DETACH, S_CLOSED, S_FAILED, S_REMAP0)
        return ev in (S_DETACH, S_CLOSED, S_FAILED)

    def apply(self, e):
        """-> ('CIRC'|'STREAM', payload text).  Updates the model and self.log."""
        kind, oid, ev = self.decode(e)
        self.log = []
        if kind == 'C':
            if ev == C_EXT_BUILT:
                kw = {'BUILD_FLAGS': 'NEED_CAPACITY', 'PURPOSE': 'HS_SERVICE_REND', 'HS_STATE': 'HSSR_CONNECTING',
                      'TIME_CREATED': '2024-01-01T00:00:00.000000'}
            elif ev in (C_LAUNCHED, C_EXT1):
                # an onion-service client circuit in its early life: carries HS_STATE / REND_QUERY, which later events
                # (after Tor re-purposed it to GENERAL) no longer repeat
                kw = {'BUILD_FLAGS': 'NEED_CAPACITY', 'PURPOSE': 'HS_CLIENT_REND', 'HS_STATE': 'HSCR_CONNECTING',
                      'REND_QUERY': 'onionaddressonionaddr', 'TIME_CREATED': '2024-01-01T00:00:00.000000'}
            else:
                kw = {'BUILD_FLAGS': 'NEED_CAPACITY', 'PURPOSE': 'GENERAL', 'TIME_CREATED': '2024-01-01T00:00:00.000000'}
            if ev == C_LAUNCHED:
                self.gen += 1
                self.circ[oid] = {'status': 'LAUNCHED', 'path': [], 'gen': self.gen, 'flags': kw, 'purpose': kw['PURPOSE']}
                self.log = [('circuit_new', oid), ('circuit_launched', oid)]
                path = None
            else:
                c = self.circ[oid]
                if ev == C_EXT1:
                    c['path'] = [RA]
                    self.log = [('circuit_extend', oid, RA)]
                elif ev == C_EXT2:
                    c['path'] = [RA, RX]
                    self.log = [('circuit_extend', oid, RX)]
                elif ev == C_BUILT:
                    c['path'] = c['path'] + [RB]
                    self.log = [('circuit_extend', oid, RB), ('circuit_built', oid)]
                elif ev == C_EXT_BUILT:
                    c['path'] = c['path'] + [RX]
                    self.log = [('circuit_extend', oid, RX)]
                elif ev == C_BUILT_ALT:
                    old = len(c['path'])
                    c['path'] = [RB, RA, RX][:max(old, 2)] if old < 3 else [RB, RA, RX]
                    # (listeners hear circuit_extend only for hops beyond the previous length: not compared for this event)
                    self.log = None
                elif ev == C_CLOSED:
                    kw['REASON'] = 'FINISHED'
                    self.log = [('circuit_closed', oid, 'FINISHED')]
                else:
                    kw['REASON'] = 'TIMEOUT'
                    kw['REMOTE_REASON'] = 'DESTROYED'
                    self.log = [('circuit_failed', oid, 'TIMEOUT')]
                c['status'] = CNAMES[ev]
                c['flags'] = kw
                c['purpose'] = kw['PURPOSE']
                path = c['path']
                if ev in (C_CLOSED, C_FAILED):
                    del self.circ[oid]
            words = [str(oid), CNAMES[ev]]
            if path:
                words.append(','.join(LONG[r] for r in path))
            words += ['%s=%s' % (k, v) for k, v in kw.items()]
            return 'CIRC', ' '.join(words)
        # stream
        host = 'www.s%d.example:80' % oid
        self.nremap = getattr(self, 'nremap', 0)
        ip = '10.0.%d.%d:80' % (self.nremap, oid)
        if ev == S_NEW:
            kw = {'SOURCE_ADDR': '127.0.0.1:%d' % (4000 + oid), 'PURPOSE': 'USER'}
            self.stream[oid] = {'status': 'NEW', 'target': host, 'on': None, 'addr': None,
                                'source': ('127.0.0.1', 4000 + oid), 'flags': kw}
            self.log = [('stream_new', oid)]
            return 'STREAM', '%d NEW 0 %s %s' % (oid, host, ' '.join('%s=%s' % kv for kv in kw.items()))
        s = self.stream[oid]
        if ev in (S_SENT1, S_SENT2):
            cid = 1 if ev == S_SENT1 else 2
            s['on'] = (cid, self.circ[cid]['gen'])
            s['status'] = 'SENTCONNECT'
            s['flags'] = {}
            self.log = [('stream_attach', oid, cid)]
            return 'STREAM', '%d SENTCONNECT %d %s' % (oid, cid, host)
        cid = s['on'][0] if s['on'] else 0
        if ev in (S_REMAP, S_REMAP0):
            self.nremap += 1
            ip = '10.0.%d.%d:80' % (self.nremap, oid)
        if ev == S_REMAP:
            s['status'] = 'REMAP'
            s['addr'] = ip.split(':')[0]
            s['flags'] = {'SOURCE': 'EXIT'}
            return 'STREAM', '%d REMAP %d %s SOURCE=EXIT' % (oid, cid, ip)
        if ev == S_REMAP0:
            s['status'] = 'REMAP'
            s['addr'] = ip.split(':')[0]
            s['on'] = None
            s['flags'] = {'SOURCE': 'CACHE'}
            return 'STREAM', '%d REMAP 0 %s SOURCE=CACHE' % (oid, ip)
        if ev == S_SUCC:
            s['status'] = 'SUCCEEDED'
            s['flags'] = {}
            self.log = [('stream_succeeded', oid)]
            return 'STREAM', '%d SUCCEEDED %d %s' % (oid, cid, ip)
        if ev == S_DETACH:
            s['status'] = 'DETACHED'
            s['on'] = None
            s['flags'] = {'REASON': 'TIMEOUT'}
            self.log = [('stream_detach', oid, 'TIMEOUT')]
            return 'STREAM', '%d DETACHED %d %s REASON=TIMEOUT' % (oid, cid, host)
        reason = 'DONE' if ev == S_CLOSED else 'CONNECTREFUSED'
        self.log = [('stream_closed' if ev == S_CLOSED else 'stream_failed', oid, reason)]
        del self.stream[oid]
        return 'STREAM', '%d %s %d %s REASON=%s' % (oid, SNAMES[ev], cid, host, reason)

    # ---- snapshots (GETINFO circuit-status / stream-status)
    def snapshot_texts(self):
        clines = []
        for cid in sorted(self.circ):
            c = self.circ[cid]
            w = [str(cid), c['status']]
            if c['path']:
                w.append(','.join(LONG[r] for r in c['path']))
            w += ['%s=%s' % kv for kv in c['flags'].items()]
            clines.append(' '.join(w))
        if len(clines) == 0:
            ctext = 'circuit-status='
        elif len(clines) == 1:
            ctext = 'circuit-status=' + clines[0]
        else:
            ctext = 'circuit-status=\n' + '\n'.join(clines)
        slines = []
        for sid in sorted(self.stream):
            s = self.stream[sid]
            cid = s['on'][0] if s['on'] else 0
            tgt = ('10.0.0.%d:80' % sid) if s['status'] in ('SUCCEEDED', 'REMAP') else s['target']     # (snapshot lines carry their own target)
            slines.append('%d %s %d %s' % (sid, s['status'], cid, tgt))
        if len(slines) == 0:
            stext = 'stream-status='
        elif len(slines) == 1:
            stext = 'stream-status=' + slines[0]
        else:
            stext = 'stream-status=\n' + '\n'.join(slines)
        return ctext, stext


CONSENSUS = '\n'.join([
    'r relaya qqqqqqqqqqqqqqqqqqqqqqqqqqo AAAAAAAAAAAAAAAAAAAAAAAAAAA 2024-01-01 00:00:00 10.1.1.1 9001 0',
    's Fast Guard Running Stable Valid',
    'w Bandwidth=100',
    'r relayb u7u7u7u7u7u7u7u7u7u7u7u7u7s AAAAAAAAAAAAAAAAAAAAAAAAAAA 2024-01-01 00:00:00 10.1.1.2 9001 0',
    's Exit Fast Running Stable Valid',
    'w Bandwidth=200',
])


def admissible_prefixes(depth, ncirc=2, nstream=2):
    """all event-number sequences of the given length that the model admits from the empty state"""
    out = []

    def rec(prefix):
        if len(prefix) == depth:
            out.append(list(prefix))
            return
        m = TorModel(ncirc, nstream)
        for e in prefix:
            m.apply(e)
        for e in range(m.nevents()):
            if m.enabled(e):
                rec(prefix + [e])
    rec([])
    return out
