"""Schedule condition partitions on all cores, classify, write evidence.

exit 0: no reproduced violation outside known_findings.json
exit 1: reproduced violation(s): lines 'VIOLATION property=<id> replay=<path>'
exit 2: infrastructure problem (vacuous harness, non-reproducing counterexample,
        engine error, shim validation failure)
"""
import argparse
import glob
import importlib
import json
import os
import re
import subprocess
import sys
import time

sys.dont_write_bytecode = True
HERE = os.path.dirname(os.path.abspath(__file__))
VERIF = os.path.dirname(HERE)
sys.path.insert(0, VERIF)

from vlib import api, prelude  # noqa: E402
from vlib.worker import unjson, run_native, Profiler  # noqa: E402

PY = sys.executable
JOBS = int(os.environ.get('VERIF_JOBS', str(os.cpu_count() or 4)))


def harness_modules(prop):
    pat = os.path.join(VERIF, 'harness', prop.lower() + '_*.py')
    return ['harness.' + os.path.basename(p)[:-3] for p in sorted(glob.glob(pat))]


def load_known():
    p = os.path.join(VERIF, 'known_findings.json')
    if not os.path.exists(p):
        return {'findings': [], 'fixed': []}
    with open(p) as f:
        return json.load(f)


def match_finding(finding, condname, reason, args):
    if finding.get('cond') and finding['cond'] != condname:
        return False
    if finding.get('reason') and not re.search(finding['reason'], reason or ''):
        return False
    w = finding.get('where')
    if w:
        try:
            g = dict(args)
            g['re'] = re
            if not eval(w, g):
                return False
        except Exception:
            return False
    return True


# per-partition CPU budgets in the harnesses were calibrated on an idle machine; under load (other checks running,
# SMT siblings busy) the same work costs up to ~2x the CPU time, so the calibrated figure is scaled
BUDGET_SCALE = float(os.environ.get('VERIF_BUDGET_SCALE', '2.5'))


def plan(prop, tier, only=None):
    jobs = []
    mods = harness_modules(prop)
    if not mods:
        raise SystemExit('no harness for ' + prop)
    for mn in mods:
        mod = importlib.import_module(mn)
        for c in api.conditions_of(mod):
            if only and c.name not in only:
                continue
            spec = c.tiers.get(tier)
            if spec is None and tier == 'thorough':
                spec = c.tiers.get('quick')
            if spec is None:
                continue
            pins = spec.get('pins', {})
            for part in spec.get('parts', [{}]):
                kw = dict(pins)
                kw.update(part)
                jobs.append({'mod': mn, 'cond': c.name, 'pins': kw,
                             'budget': int(spec.get('budget', 60) * BUDGET_SCALE), 'doc': c.doc,
                             'bounds': spec.get('bounds', ''), 'outside': spec.get('outside', '')})
    return mods, jobs


def run_jobs(jobs, workdir):
    pending = list(enumerate(jobs))
    running = {}
    results = [None] * len(jobs)
    env = dict(os.environ)
    env['PYTHONDONTWRITEBYTECODE'] = '1'
    env['PYTHONHASHSEED'] = '0'
    # longest budgets first
    pending.sort(key=lambda x: -x[1]['budget'])
    while pending or running:
        while pending and len(running) < JOBS:
            i, j = pending.pop(0)
            out = os.path.join(workdir, 'r%d.json' % i)
            log = open(os.path.join(workdir, 'r%d.log' % i), 'w')
            from vlib.worker import jsonable
            cmd = [PY, os.path.join(HERE, 'worker.py'), j['mod'], j['cond'],
                   json.dumps(jsonable(j['pins'])), str(j['budget']), out]
            p = subprocess.Popen(cmd, stdout=log, stderr=subprocess.STDOUT, env=env, cwd=VERIF)
            running[i] = (p, time.time(), out, log, j)
        time.sleep(0.05)
        for i in list(running):
            p, t0, out, log, j = running[i]
            rc = p.poll()
            hard = j['budget'] * 2 + 120
            if rc is None and time.time() - t0 > hard:
                p.kill()
                rc = p.wait()
                rc = 'timeout'
            if rc is None:
                continue
            log.close()
            del running[i]
            if os.path.exists(out):
                with open(out) as f:
                    r = json.load(f)
            else:
                with open(log.name) as f:
                    tail = f.read()[-3000:]
                r = {'verdict': 'error', 'error': 'worker rc=%s: %s' % (rc, tail), 'cond': j['cond'],
                     'pins': j['pins'], 'paths': 0, 'reached': 0, 'cex': [], 'samples': [],
                     'solver': {'queries': 0, 'seconds': 0, 'unknown': 0}, 'completed': 0,
                     'ignored': 0, 'unknown': 0, 'validated': 0, 'functions': [], 'cpu_s': 0,
                     'wall_s': time.time() - t0, 'exhausted': False}
            r['job'] = j
            results[i] = r
    return results


def check(prop, tier, only=None, verbose=False):
    t0 = time.time()
    prelude.install()
    seed = int(os.environ.get('VERIF_SEED', '0') or 0)
    mods, jobs = plan(prop, tier, only)
    workdir = os.path.join(VERIF, '.work', '%s-%s-%d' % (prop, tier, os.getpid()))
    os.makedirs(workdir, exist_ok=True)
    # checks write /verif/evidence; runs against scratch copies (mutants, seeded changes) are told to write elsewhere
    evdir = os.environ.get('VERIF_EVIDENCE_DIR') or os.path.join(VERIF, 'evidence')
    os.makedirs(os.path.join(evdir, 'replay'), exist_ok=True)
    for old in glob.glob(os.path.join(evdir, 'replay', prop + '-*.json')):
        os.remove(old)
    known = load_known()
    findings = [f for f in known.get('findings', []) if f.get('property') == prop]

    results = run_jobs(jobs, workdir)

    # unstripped replay pass: up to 40 sampled paths per condition re-run with txtorcon's logging statements in place
    unstripped = []
    try:
        percond = {}
        for r in results:
            for smp in r.get('samples', []):
                lst = percond.setdefault((r['job']['mod'], r['job']['cond']), [])
                if smp.get('native') == 'ok' and len(lst) < 40:
                    lst.append(smp['args'])
        items = [{'mod': m, 'cond': c, 'args': a} for (m, c), lst in percond.items() for a in lst]
        if items:
            fin, fout = os.path.join(workdir, 'unstripped.in.json'), os.path.join(workdir, 'unstripped.out.json')
            with open(fin, 'w') as f:
                json.dump(items, f)
            env = dict(os.environ)
            env['VERIF_NO_STRIP'] = '1'
            env['PYTHONHASHSEED'] = '0'
            subprocess.run([sys.executable, '-m', 'vlib.unstripped', fin, fout], cwd=VERIF, env=env, timeout=1800,
                           stdout=subprocess.DEVNULL, stderr=subprocess.DEVNULL)
            unstripped = json.load(open(fout))
    except Exception as e:
        unstripped = [{'status': 'error', 'reason': 'unstripped replay pass did not run: %r' % (e,), 'mod': '', 'cond': '', 'args': {}}]

    infra = []
    violations = []
    known_hits = {}
    inconclusive = []
    divergences = []
    conditions = []
    functions = set()
    samples = []
    tot = {'paths': 0, 'completed': 0, 'reached': 0, 'queries': 0, 'solver_s': 0.0,
           'validated': 0, 'ignored': 0, 'unknown': 0}
    per_cond_reached = {}
    for r in results:
        j = r['job']
        cname = j['cond']
        tot['paths'] += r.get('paths', 0)
        tot['completed'] += r.get('completed', 0)
        tot['reached'] += r.get('reached', 0)
        tot['ignored'] += r.get('ignored', 0)
        tot['unknown'] += r.get('unknown', 0)
        tot['queries'] += r['solver']['queries']
        tot['solver_s'] += r['solver']['seconds']
        tot['validated'] += r.get('validated', 0)
        functions.update(r.get('functions', []))
        per_cond_reached[cname] = per_cond_reached.get(cname, 0) + r.get('reached', 0)
        conditions.append({
            'condition': cname, 'partition': j['pins'], 'verdict': r['verdict'],
            'paths': r.get('paths', 0), 'completed': r.get('completed', 0),
            'ignored_by_precondition': r.get('ignored', 0), 'unknown_paths': r.get('unknown', 0),
            'reached_end_state': r.get('reached', 0), 'solver_queries': r['solver']['queries'],
            'solver_s': r['solver']['seconds'], 'cpu_s': r.get('cpu_s', 0), 'wall_s': r.get('wall_s', 0),
            'tree': r.get('tree', {}), 'budget_cpu_s': j['budget'],
        })
        if r['verdict'] == 'error':
            infra.append('%s %s: %s' % (cname, j['pins'], r.get('error')))
        elif r['verdict'] == 'inconclusive':
            inconclusive.append('%s %s (paths=%d unknown=%d)' % (cname, j['pins'], r.get('paths', 0), r.get('unknown', 0)))
        for s in r.get('samples', []):
            if s.get('native') == 'fail':
                # the engine's model of some library call let this path pass, the real code fails on the same concrete input:
                # the native run is the authoritative one, so this is a counterexample (and a recorded engine divergence)
                divergences.append('%s %s: passed symbolically, fails natively: %s' % (cname, json.dumps(s['args'])[:300], (s.get('native_reason') or '')[:300]))
                conditions[-1]['verdict'] = 'cex'       # never 'confirmed': the model the exhaustion rests on is wrong on this path
                args = unjson(s['args'])
                hit = None
                for f in findings:
                    if match_finding(f, cname, s.get('native_reason') or '', args):
                        hit = f
                        break
                if hit is not None:
                    known_hits.setdefault(hit['id'], []).append(s)
                else:
                    violations.append({'mod': j['mod'], 'cond': cname, 'args': s['args'], 'reason': s.get('native_reason') or 'fails natively'})
            elif s.get('native') != 'ok' or ('native_reached' in s):
                infra.append('%s: symbolic path does not replay natively: %s' % (cname, json.dumps(s)[:600]))
            if len(samples) < 12:
                samples.append({'condition': cname, 'args': s['args'], 'notes': s.get('notes', []),
                                'reached_end_state': bool(s['reached'])})
        for c in r.get('cex', []):
            args = unjson(c['args'])
            if c.get('native') != 'fail':
                infra.append('%s: counterexample does not reproduce natively (%s): args=%s reason=%s native=%s' % (
                    cname, c.get('native'), json.dumps(c['args']), c['reason'], (c.get('native_reason') or '')[-800:]))
                continue
            hit = None
            for f in findings:
                if match_finding(f, cname, c['native_reason'], args):
                    hit = f
                    break
            if hit is not None:
                known_hits.setdefault(hit['id'], []).append(c)
            else:
                violations.append({'mod': j['mod'], 'cond': cname, 'args': c['args'],
                                   'reason': c['native_reason']})

    n_unstripped = 0
    for u in unstripped:
        if u['status'] == 'ok':
            n_unstripped += 1
        elif u['status'] == 'fail':
            divergences.append('%s %s: passes with the logging statements compiled away, fails with them: %s' % (u['cond'], json.dumps(u['args'])[:300], u['reason'][:300]))
            hit = None
            for f in findings:
                if match_finding(f, u['cond'], u['reason'], unjson(u['args'])):
                    hit = f
                    break
            if hit is None:
                violations.append({'mod': u['mod'], 'cond': u['cond'], 'args': u['args'], 'reason': u['reason']})
        elif u['status'] == 'error':
            infra.append('unstripped replay: %s %s' % (u['cond'], u['reason'][-400:]))

    # vacuity guard: every condition must have reached its end state on some path
    for cname, n in per_cond_reached.items():
        if n == 0:
            infra.append('vacuity: condition %s never reached its end state' % cname)

    # known-finding witnesses (native replay of the recorded failing input)
    kf_lines = []
    for f in findings:
        w = f.get('witness')
        still = False
        if w:
            mod = importlib.import_module(w['mod'])
            if hasattr(mod, 'setup'):
                mod.setup('native')
            fn = getattr(mod, w['cond'])
            api.WITNESS[0] = True
            try:
                st, reason, _r = run_native(mod, fn, unjson(w['args']))
            finally:
                api.WITNESS[0] = False
            if st == 'fail' and match_finding(f, w['cond'], reason, unjson(w['args'])):
                still = True
                tot['validated'] += 1
            elif st == 'error':
                infra.append('known-finding witness %s errored: %s' % (f['id'], reason[-500:]))
        if still or f['id'] in known_hits:
            kf_lines.append('KNOWN-FINDING: property=%s %s [%s]' % (prop, f['what'], f['id']))

    # dedupe violations by (cond, reason)
    seen = set()
    vio_out = []
    for v in violations:
        key = (v['cond'], v['reason'].split(':')[0][:100])
        if key in seen or len(seen) >= 12:
            continue
        seen.add(key)
        n = len(vio_out) + 1
        path = os.path.join(evdir, 'replay', '%s-%d.json' % (prop, n))
        with open(path, 'w') as f:
            json.dump({'property': prop, 'mod': v['mod'], 'cond': v['cond'], 'args': v['args'],
                       'reason': v['reason'],
                       'replay_cmd': './vt replay %s' % path}, f, indent=1)
        vio_out.append((path, v))

    nconf = sum(1 for c in conditions if c['verdict'] == 'confirmed')
    wall = time.time() - t0
    modfiles = set()
    for fn in functions:
        modfiles.add('txtorcon/' + fn.split(':')[0])
    info = {}
    for mn in mods:
        m = importlib.import_module(mn)
        info.setdefault('assumptions', []).extend(getattr(m, 'ASSUMPTIONS', []))
        info.setdefault('bounds', {}).update(getattr(m, 'BOUNDS', {}).get(tier, getattr(m, 'BOUNDS', {}).get('quick', {})) if isinstance(getattr(m, 'BOUNDS', {}), dict) else {})
        info.setdefault('outside', []).extend(getattr(m, 'OUTSIDE', []))
    ev = {
        'property_id': prop, 'tier': tier, 'seed': seed, 'level': 'model_checking',
        'coverage': {
            'states': max(tot['paths'], 0),
            'transitions': max(tot['queries'], 0),
            'traces_validated_against_impl': tot['validated'],
            'samples': samples or [{'note': 'no completed path'}],
            'evaluations': tot['completed'],
            'distinct_nontrivial': tot['reached'],
            'rule': 'each evaluation is one symbolic execution path of the real txtorcon code through a harness condition '
                    '(CrossHair decision tree; every branch on a symbolic value is decided by z3, so no two paths share a '
                    'decision sequence and each path stands for the whole class of inputs satisfying its path condition); a '
                    'path is non-trivial when it satisfied all preconditions and reached the harness end state (api.reached()).',
            'exhaustive': bool(conditions) and nconf == len(conditions),
            'obligations': len(conditions), 'discharged': nconf,
            'inconclusive': inconclusive,
            'conditions': conditions,
            'functions_encoded': sorted(functions),
            'source_sha256_16': prelude.source_digest(sorted(modfiles)),
            'bounds': info.get('bounds', {}),
            'outside_bounds': info.get('outside', []),
            'solver': {'engine': 'CrossHair 0.0.110 + z3 (z3-solver wheel)', 'queries': tot['queries'],
                       'solver_s': round(tot['solver_s'], 2)},
            'paths_ignored_by_precondition': tot['ignored'], 'paths_unknown': tot['unknown'],
            'known_findings_reproduced': [l for l in kf_lines],
            'engine_divergences': divergences[:20],
            'replayed_with_logging_statements_in_place': n_unstripped,
            'repo': prelude.REPO,
        },
        'assumptions': info.get('assumptions', []),
        'wall_s': round(wall, 2),
        'violations': len(vio_out),
    }
    with open(os.path.join(evdir, prop + '.json'), 'w') as f:
        json.dump(ev, f, indent=1)

    for c in conditions:
        if verbose or c['verdict'] != 'confirmed':
            print('  %-12s %-28s %-40s paths=%d reached=%d cpu=%.1fs' % (
                c['verdict'], c['condition'], json.dumps(c['partition'])[:40], c['paths'],
                c['reached_end_state'], c['cpu_s']))
    print('%s %s: %d/%d partitions confirmed, %d paths, %d solver queries (%.1fs solver), wall %.1fs' % (
        prop, tier, nconf, len(conditions), tot['paths'], tot['queries'], tot['solver_s'], wall))
    for l in kf_lines:
        print(l)
    for path, v in vio_out:
        print('  violation: %s %s :: %s' % (v['cond'], json.dumps(v['args']), v['reason'][:300]))
        print('VIOLATION property=%s replay=%s' % (prop, path))
    try:
        import shutil
        if not os.environ.get('VERIF_KEEP_WORK'):
            shutil.rmtree(workdir)
    except Exception:
        pass
    if vio_out:
        return 1
    if infra:
        for m in infra[:20]:
            print('INFRA-ERROR: ' + m[:3000])
        return 2
    return 0


def replay(path):
    prelude.install()
    with open(path) as f:
        d = json.load(f)
    mod = importlib.import_module(d['mod'])
    if hasattr(mod, 'setup'):
        mod.setup('native')
    fn = getattr(mod, d['cond'])
    st, reason, _r = run_native(mod, fn, unjson(d['args']))
    print('replay %s %s -> %s %s' % (d['cond'], json.dumps(d['args']), st, reason))
    if st == 'ok':
        # the counterexample may stem from the unstripped pass: replay it with txtorcon's logging statements in place
        import tempfile
        tmp = tempfile.mkdtemp(prefix='verif-replay-')
        try:
            fin, fout = os.path.join(tmp, 'in.json'), os.path.join(tmp, 'out.json')
            with open(fin, 'w') as f:
                json.dump([{'mod': d['mod'], 'cond': d['cond'], 'args': d['args']}], f)
            env = dict(os.environ)
            env['VERIF_NO_STRIP'] = '1'
            subprocess.run([sys.executable, '-m', 'vlib.unstripped', fin, fout], cwd=VERIF, env=env, timeout=600)
            u = json.load(open(fout))[0]
            print('replay with logging statements in place -> %s %s' % (u['status'], u['reason']))
            st = u['status']
        finally:
            import shutil
            shutil.rmtree(tmp, ignore_errors=True)
    return 1 if st == 'fail' else (0 if st == 'ok' else 2)


def main():
    ap = argparse.ArgumentParser()
    sub = ap.add_subparsers(dest='cmd')
    c = sub.add_parser('check')
    c.add_argument('prop')
    c.add_argument('--tier', default=os.environ.get('VERIF_TIER', 'quick'))
    c.add_argument('--only', action='append')
    c.add_argument('-v', action='store_true')
    r = sub.add_parser('replay')
    r.add_argument('path')
    a = ap.parse_args()
    if a.cmd == 'check':
        sys.exit(check(a.prop.upper(), a.tier, a.only, a.v))
    elif a.cmd == 'replay':
        sys.exit(replay(a.path))
    ap.print_help()
    sys.exit(2)


if __name__ == '__main__':
    main()
