"""SimTor: a reference model of Tor's side of the control port (config store, GETINFO table, SETEVENTS,
ADD_ONION / DEL_ONION, HS_DESC events).  Written from control-spec; it is the oracle's side and contains no
txtorcon code.  It never guesses what txtorcon will send: pump() reads the complete lines that reached the fake
transport since the last pump and answers each through the real protocol's lineReceived."""
from vlib.ref_kvline import decode_items


class SimTor(object):
    def __init__(self, protocol, transport, options=None, defaults_supported=True):
        self.p = protocol
        self.t = transport
        self.answered = 0
        self.lines = []                 # every command line received, in order
        # option table: name -> {'type': str, 'values': None (unset) | list of str}
        self.options = options or {}
        self.defaults = {}              # name -> list of str  (GETINFO config/defaults)
        self.defaults_supported = defaults_supported
        self.reject_setconf = []        # queue of codes: next SETCONFs are refused with that code
        self.hold = False               # when True, commands are left unanswered until release()
        self.setconfs = []              # decoded SETCONF item lists, in order
        self.setevents = []
        self.info = {}                  # extra GETINFO keys -> single-line value
        self.onion_handler = None       # callable(line) -> list of reply lines, for ADD_ONION / DEL_ONION
        self.dead = False

    # ------------------------------------------------------------ helpers
    def say(self, *lines):
        for ln in lines:
            self.p.lineReceived(ln.encode('ascii'))

    def _find(self, name):
        for k in self.options:
            if k.lower() == name.lower():
                return k
        return None

    def getconf_lines(self, name):
        k = self._find(name)
        if k is None:
            return ['552 Unrecognized configuration key "%s"' % name]
        vals = self.options[k]['values']
        if vals is None:
            return ['250 ' + k]
        if len(vals) == 0:
            return ['250 ' + k]
        out = ['250-%s=%s' % (k, v) for v in vals[:-1]]
        out.append('250 %s=%s' % (k, vals[-1]))
        return out

    def apply_setconf(self, items):
        """control-spec 3.1: all-or-nothing; a bare keyword resets the option to its default"""
        staged = {}
        for key, val in items:
            k = self._find(key)
            if k is None:
                return '552 Unrecognized option: Unknown option \'%s\'.  Failing.' % key
            if val is None:
                staged[k] = None
            else:
                if staged.get(k) is None:
                    staged[k] = []
                staged[k].append(val)
        for k, v in staged.items():
            self.options[k]['values'] = v
        return None

    def conf_changed_lines(self, changes):
        """changes: list of (name, list-of-values or None)"""
        out = ['650-CONF_CHANGED']
        for name, vals in changes:
            if not vals:
                out.append('650-' + name)
            else:
                for v in vals:
                    out.append('650-%s=%s' % (name, v))
        out.append('650 OK')
        return out

    # ------------------------------------------------------------ main loop
    def pending(self):
        lines = b''.join(self.t.chunks).split(b'\r\n')[:-1]
        return lines[self.answered:]

    def pump(self):
        n = 0
        while not self.hold and not self.dead:
            rest = self.pending()
            if not rest:
                return n
            ln = rest[0].decode('ascii')
            self.answered += 1
            self.lines.append(ln)
            self.answer(ln)
            n += 1
        return n

    def answer(self, ln):
        word, _, arg = ln.partition(' ')
        word = word.upper()
        if word == 'GETINFO':
            self.answer_getinfo(arg)
        elif word == 'GETCONF':
            self.say(*self.getconf_lines(arg.strip()))
        elif word == 'SETCONF' or word == 'RESETCONF':
            items = decode_items(arg)
            self.setconfs.append(items)
            if self.reject_setconf:
                code = self.reject_setconf.pop(0)
                if code:
                    self.say('%d Unacceptable option value: injected' % code)
                    return
            if items is None:
                self.say('551 Couldn\'t parse string')
                return
            err = self.apply_setconf(items)
            self.say(err or '250 OK')
        elif word == 'SETEVENTS':
            self.setevents.append(arg.split())
            self.say('250 OK')
        elif word in ('ADD_ONION', 'DEL_ONION') and self.onion_handler is not None:
            self.say(*self.onion_handler(ln))
        else:
            self.say('250 OK')

    def answer_getinfo(self, key):
        key = key.strip()
        if key == 'config/names':
            out = ['250+config/names=']
            for k, o in self.options.items():
                out.append('%s %s' % (k, o['type']))
            out += ['.', '250 OK']
            self.say(*out)
        elif key == 'config/defaults':
            if not self.defaults_supported:
                self.say('552 Unrecognized key "config/defaults"')
                return
            out = ['250+config/defaults=']
            for k, vals in self.defaults.items():
                for v in vals:
                    out.append('%s %s' % (k, v))
            out += ['.', '250 OK']
            self.say(*out)
        elif key in self.info:
            self.say('250-%s=%s' % (key, self.info[key]), '250 OK')
        else:
            self.say('552 Unrecognized key "%s"' % key)
