"""Explore ONE condition partition symbolically (CrossHair + z3) and report.

usage: worker.py <harness module> <condition> <json pins> <budget cpu s> <out.json>

The loop is CrossHair's own path-exploration loop (crosshair.core.explore_paths)
unrolled so that we can (a) keep going after a counterexample and collect
every failing path up to a cap, (b) know whether the path tree was exhausted,
(c) count paths / solver queries / solver seconds ourselves.  A partition is
"confirmed" iff the path tree was exhausted -- every branch alternative was
either executed or shown infeasible by z3 -- with no unknown path and no
counterexample.
"""
import importlib
import inspect
import json
import os
import sys
import time
import traceback

sys.dont_write_bytecode = True
HERE = os.path.dirname(os.path.abspath(__file__))
sys.path.insert(0, os.path.dirname(HERE))

from vlib import api, prelude  # noqa: E402

MAX_CEX = int(os.environ.get('VERIF_MAX_CEX', '24'))
# completed paths replayed natively per partition (differential check of the engine's models against CPython)
MAX_SAMPLES = int(os.environ.get('VERIF_MAX_SAMPLES', '64'))
PER_PATH_TIMEOUT = float(os.environ.get('VERIF_PER_PATH_TIMEOUT', '40'))


def jsonable(v):
    if isinstance(v, bytes):
        return {'__bytes__': v.hex()}
    if isinstance(v, (list, tuple)):
        return [jsonable(x) for x in v]
    if isinstance(v, dict):
        return {str(k): jsonable(x) for k, x in v.items()}
    if isinstance(v, (int, str, bool, float)) or v is None:
        return v
    return repr(v)


def unjson(v):
    if isinstance(v, dict) and '__bytes__' in v:
        return bytes.fromhex(v['__bytes__'])
    if isinstance(v, list):
        return [unjson(x) for x in v]
    if isinstance(v, dict):
        return {k: unjson(x) for k, x in v.items()}
    return v


class Profiler(object):
    """Collect txtorcon functions entered during native replays."""

    def __init__(self):
        self.seen = set()
        self.root = os.path.realpath(os.path.join(prelude.REPO, 'txtorcon')) + os.sep

    def __call__(self, frame, event, arg):
        if event == 'call':
            fn = frame.f_code.co_filename
            if fn.startswith(self.root) or os.path.realpath(fn).startswith(self.root):
                self.seen.add('%s:%s' % (os.path.basename(fn), frame.f_code.co_qualname))

    def __enter__(self):
        sys.setprofile(self)
        return self

    def __exit__(self, *a):
        sys.setprofile(None)


def run_native(mod, fn, kwargs, profiler=None):
    """Returns (status, reason): status in ok / fail / skip / error."""
    api.MODE = 'native'
    api.reset_path()
    try:
        if profiler is not None:
            with profiler:
                r = fn(**kwargs)
        else:
            r = fn(**kwargs)
    except api.Skip:
        return 'skip', '', 0
    except Exception:
        return 'error', traceback.format_exc(), 0
    reached = api.path_reached()
    if r == '' or r is None:
        return 'ok', '', reached
    return 'fail', str(r), reached


def explore(mod, cnd, pins, budget, out):
    import z3
    from crosshair.condition_parser import condition_parser
    from crosshair.core import ExceptionFilter, Patched, deep_realize, gen_args
    from crosshair.core_and_libs import standalone_statespace  # noqa: F401 (registers lib models)
    from crosshair.options import AnalysisKind
    from crosshair.statespace import (CallAnalysis, RootNode, StateSpace,
                                      StateSpaceContext, VerificationStatus)
    from crosshair.tracers import COMPOSITE_TRACER, NoTracing, ResumedTracing
    from crosshair.util import IgnoreAttempt, NotDeterministic, UnexploredPath
    from crosshair.copyext import CopyMode, deepcopyext

    fn = cnd.fn
    params = [p for p in cnd.sig.parameters.values() if p.name not in pins]
    for p in params:
        if p.annotation is inspect.Parameter.empty:
            raise SystemExit('unpinned parameter %s of %s has no annotation' % (p.name, cnd.name))
    sig = inspect.Signature(params)

    # solver instrumentation
    solver_stats = {'queries': 0, 'seconds': 0.0, 'unknown': 0}
    orig_check = z3.Solver.check

    def counting_check(self, *a):
        t0 = time.perf_counter()
        r = orig_check(self, *a)
        solver_stats['seconds'] += time.perf_counter() - t0
        solver_stats['queries'] += 1
        if str(r) == 'unknown':
            solver_stats['unknown'] += 1
        return r
    z3.Solver.check = counting_check

    from vlib import engine_ext
    engine_ext.install()
    if hasattr(mod, 'setup'):
        mod.setup('symbolic')

    search_root = RootNode()
    res = {
        'paths': 0, 'completed': 0, 'ignored': 0, 'unknown': 0, 'reached': 0,
        'cex': [], 'samples': [], 'exhausted': False, 'error': None,
    }
    seen_reasons = {}
    t_start = time.process_time()
    w_start = time.time()
    exhausted = False
    while True:
        itr_start = time.process_time()
        if itr_start - t_start > budget:
            break
        res['paths'] += 1
        space = StateSpace(
            execution_deadline=itr_start + PER_PATH_TIMEOUT,
            model_check_timeout=PER_PATH_TIMEOUT / 2,
            search_root=search_root,
        )
        api.MODE = 'symbolic'
        api.reset_path()
        status = None
        try:
            with condition_parser([AnalysisKind.PEP316]), Patched(), COMPOSITE_TRACER, \
                    NoTracing(), StateSpaceContext(space):
                try:
                    pre_args = gen_args(sig)
                    args = deepcopyext(pre_args, CopyMode.REGULAR, {})
                    ret = None
                    with ExceptionFilter() as efilter, ResumedTracing():
                        kw = dict(pins)
                        kw.update(args.arguments)
                        ret = fn(**kw)
                    if efilter.ignore:
                        raise IgnoreAttempt()
                    if efilter.user_exc is not None:
                        exc, stack = efilter.user_exc
                        if isinstance(exc, NotDeterministic):
                            raise exc
                        ret = 'HARNESS-EXCEPTION %s: %s @ %s' % (
                            type(exc).__name__, exc, ''.join(stack.format()[-3:]))
                    with ExceptionFilter() as ef2, ResumedTracing():
                        space.detach_path()
                        ret = deep_realize(ret)
                        conc = deep_realize(pre_args).arguments
                    if ef2.ignore or ef2.user_exc is not None:
                        if os.environ.get('VERIF_DEBUG'):
                            sys.stderr.write('realize failed: %r\n' % (ef2.user_exc,))
                        raise UnexploredPath()
                    res['completed'] += 1
                    full = dict(pins)
                    full.update(conc)
                    r_reached = api.path_reached()
                    if r_reached:
                        res['reached'] += 1
                    if ret not in ('', None):
                        key = str(ret)[:80]
                        seen_reasons[key] = seen_reasons.get(key, 0) + 1
                        if seen_reasons[key] <= 3 and len(res['cex']) < MAX_CEX:
                            res['cex'].append({'args': jsonable(full), 'reason': str(ret), 'notes': jsonable(api.path_notes())})
                    elif len(res['samples']) < MAX_SAMPLES and ((r_reached and (res['reached'] <= 16 or res['reached'] % 37 == 0)) or
                                                                (not r_reached and res['paths'] > 50 and len(res['samples']) < 4)):
                        res['samples'].append({'args': jsonable(full), 'reached': r_reached,
                                               'notes': jsonable(api.path_notes())})
                    status = VerificationStatus.CONFIRMED
                except IgnoreAttempt:
                    res['ignored'] += 1
                    status = None
                except UnexploredPath as ue:
                    if os.environ.get('VERIF_DEBUG'):
                        sys.stderr.write('UNKNOWN PATH: %s %s\n%s\n' % (type(ue).__name__, ue, traceback.format_exc()[-1800:]))
                    res['unknown'] += 1
                    status = VerificationStatus.UNKNOWN
                _a, exhausted = space.bubble_status(CallAnalysis(status))
        except NotDeterministic:
            res['error'] = 'NotDeterministic: ' + traceback.format_exc()[-1500:]
            break
        except BaseException as e:  # CrossHairInternal etc.
            res['error'] = 'engine: %s: %s\n%s' % (type(e).__name__, e, traceback.format_exc()[-2500:])
            break
        if exhausted:
            break
        if len(seen_reasons) and sum(seen_reasons.values()) >= MAX_CEX * 3:
            break
    api.MODE = 'native'
    z3.Solver.check = orig_check
    res['exhausted'] = bool(exhausted)
    res['cpu_s'] = round(time.process_time() - t_start, 2)
    res['wall_s'] = round(time.time() - w_start, 2)
    res['solver'] = {k: (round(v, 3) if isinstance(v, float) else v) for k, v in solver_stats.items()}
    res['reason_counts'] = seen_reasons
    try:
        st = search_root.stats()
        res['tree'] = {str(k): int(v) for k, v in dict(st).items()} if st else {}
    except Exception:
        res['tree'] = {}

    # native replays
    if hasattr(mod, 'setup'):
        mod.setup('native')
    prof = Profiler()
    validated = 0
    for c in res['cex']:
        st, reason, _r = run_native(mod, fn, unjson(c['args']), prof)
        c['native'] = st
        c['native_reason'] = reason
    for s in res['samples']:
        st, reason, r = run_native(mod, fn, unjson(s['args']), prof)
        s['native'] = st
        if st == 'ok' and bool(r) == bool(s['reached']):
            validated += 1
        else:
            s['native_reason'] = reason
            s['native_reached'] = r
    res['validated'] = validated
    res['functions'] = sorted(prof.seen)
    if res['error']:
        verdict = 'error'
    elif res['cex']:
        verdict = 'cex'
    elif res['exhausted'] and res['unknown'] == 0:
        verdict = 'confirmed'
    else:
        verdict = 'inconclusive'
    res['verdict'] = verdict
    res['cond'] = cnd.name
    res['pins'] = jsonable(pins)
    with open(out, 'w') as f:
        json.dump(res, f)
    return res


def main(argv):
    modname, cname, pins_json, budget, out = argv[:5]
    sys.setrecursionlimit(20000)
    prelude.install()
    mod = importlib.import_module(modname)
    cnd = {c.name: c for c in api.conditions_of(mod)}[cname]
    pins = unjson(json.loads(pins_json))
    res = explore(mod, cnd, pins, float(budget), out)
    print(json.dumps({k: res[k] for k in ('cond', 'pins', 'verdict', 'paths', 'reached', 'cpu_s')}))


if __name__ == '__main__':
    main(sys.argv[1:])
