"""Extensions of the CrossHair models (engine side, not txtorcon):

* '%'-formatting: CrossHair 0.0.110 realises every argument of str.__mod__
  ("almost nobody uses percent formatting anymore").  txtorcon does, on the
  hot paths of several properties ('%s=%s' % (k, v), '"%s"' % s, 'GETINFO %s'
  % ...).  For a concrete template consisting only of literal text, '%%' and
  plain '%s' / '%d' conversions the result is, by definition of printf-style
  formatting, the concatenation of the literal pieces with str(arg); that case is
  modelled without realising anything, everything else falls back to the
  original (realising) model.  validate() checks the model against the real
  operator on concrete values.
"""
import re

_SPEC = re.compile(r'%(.)', re.S)


def _split_template(t):
    """-> list of literal / ('s',) / ('d',) pieces, or None if the template uses anything else."""
    out = []
    pos = 0
    n = len(t)
    lit = []
    while pos < n:
        c = t[pos]
        if c != '%':
            lit.append(c)
            pos += 1
            continue
        if pos + 1 >= n:
            return None
        k = t[pos + 1]
        if k == '%':
            lit.append('%')
        elif k in 'sd':
            out.append(''.join(lit))
            lit = []
            out.append((k,))
        else:
            return None
        pos += 2
    out.append(''.join(lit))
    return out


def simple_percent(template, other):
    """Pure-Python model of template % other for the simple subset; None = not applicable."""
    pieces = _split_template(template)
    if pieces is None:
        return None
    nspec = sum(1 for p in pieces if isinstance(p, tuple))
    if isinstance(other, tuple):
        args = other
    elif isinstance(other, dict):
        return None
    else:
        args = (other,)
    if len(args) != nspec:
        return None
    res = ''
    i = 0
    for p in pieces:
        if isinstance(p, tuple):
            a = args[i]
            i += 1
            if p[0] == 'd':
                if type(a) is not int:
                    return None
                res = res + str(a)
            else:
                if isinstance(a, (str, int)) and not isinstance(a, bool):
                    res = res + str(a)
                elif isinstance(a, bool) or a is None:
                    res = res + str(a)
                else:
                    return None
        else:
            res = res + p
    return res


def validate():
    cases = [('%s=%s', ('a', 'b')), ('"%s"', 'x y'), ('a%%b%s', ('q',)), ('%d %s', (5, 'z')),
             ('GETINFO %s', 'k'), ('%s', True), ('%s', None), ('%s', 17), ('x', ())]
    for t, o in cases:
        want = t % o
        got = simple_percent(t, o)
        if got != want:
            raise AssertionError('percent model mismatch: %r %% %r -> %r != %r' % (t, o, got, want))
    for t, o in [('%r', 'a'), ('%5s', 'a'), ('%(a)s', {'a': 1}), ('%s', (1, 2)), ('%d', 1.5), ('%d', True)]:
        if simple_percent(t, o) is not None:
            raise AssertionError('percent model must decline %r %% %r' % (t, o))


def install():
    from crosshair import core
    from crosshair.libimpl import builtinslib
    from crosshair.tracers import NoTracing
    validate()
    orig = builtinslib._str_percent_format

    def _str_percent_format(self, other):
        with NoTracing():
            concrete_template = type(self) is str
        if concrete_template:
            r = simple_percent(self, other)
            if r is not None:
                return r
        if not isinstance(self, str):
            raise TypeError
        # original behaviour: realise, then format natively
        conc_self = core.deep_realize(self)
        conc_other = core.deep_realize(other)
        with NoTracing():
            return conc_self % conc_other
    core._PATCH_REGISTRATIONS[str.__mod__] = _str_percent_format
