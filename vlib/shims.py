"""Environment shims (DESIGN 1.2).  Each is validated against the real thing
on boundary values by validate_*() which harness setup() calls; a validation
failure is a harness error (exit 2), never a pass."""
import sys


# ---------------------------------------------------------------- datetime
class SymDelta(object):
    """timedelta with whole seconds, backed by one (possibly symbolic) int.
    Follows CPython's normalisation: days = t // 86400, seconds = t % 86400."""
    __slots__ = ('_s', '_qr')

    def __init__(self, s):
        self._s = s
        self._qr = None

    def _divmod(self):
        """(t // 86400, t % 86400).  For a symbolic t the quotient and remainder are fresh
        solver variables tied to t by the *linear* defining constraints
        t == 86400*q + r and 0 <= r < 86400 (unique solution = floor division), which z3
        decides orders of magnitude faster than its div/mod encoding."""
        if self._qr is None:
            t = self._s
            from vlib import api
            sym = False
            if api.MODE == 'symbolic':
                from crosshair.tracers import NoTracing
                with NoTracing():
                    sym = type(t) is not int
            if not sym:
                self._qr = (t // 86400, t % 86400)
            else:
                from crosshair.core import proxy_for_type
                from crosshair.statespace import context_statespace
                from crosshair.util import IgnoreAttempt
                with NoTracing():
                    u = context_statespace().uniq()
                    q = proxy_for_type(int, 'tdq' + u)
                    r = proxy_for_type(int, 'tdr' + u)
                if not (t == 86400 * q + r and 0 <= r and r < 86400):
                    raise IgnoreAttempt('divmod definition')
                self._qr = (q, r)
        return self._qr

    @property
    def days(self):
        return self._divmod()[0]

    @property
    def seconds(self):
        return self._divmod()[1]

    @property
    def microseconds(self):
        return 0

    def total_seconds(self):
        return self._s

    def __add__(self, o):
        if isinstance(o, SymDelta):
            return SymDelta(self._s + o._s)
        return NotImplemented

    def __sub__(self, o):
        if isinstance(o, SymDelta):
            return SymDelta(self._s - o._s)
        return NotImplemented

    def __neg__(self):
        return SymDelta(-self._s)

    def __abs__(self):
        return SymDelta(abs(self._s))

    def __bool__(self):
        return self._s != 0

    def __eq__(self, o):
        return isinstance(o, SymDelta) and self._s == o._s

    def __ne__(self, o):
        return not self.__eq__(o)

    def __lt__(self, o):
        return self._s < o._s

    def __le__(self, o):
        return self._s <= o._s

    def __gt__(self, o):
        return self._s > o._s

    def __ge__(self, o):
        return self._s >= o._s

    def __hash__(self):
        return 0

    def __repr__(self):
        return 'SymDelta(%r)' % (self._s,)


def _timedelta(days=0, seconds=0, microseconds=0, milliseconds=0, minutes=0, hours=0, weeks=0):
    assert microseconds == 0 and milliseconds == 0
    return SymDelta(days * 86400 + seconds + minutes * 60 + hours * 3600 + weeks * 7 * 86400)


class SymDT(object):
    """datetime backed by one int = seconds since the harness epoch."""
    __slots__ = ('_t',)
    _table = {}      # token -> int, set by the harness
    _clock = None    # callable returning the current time as int

    def __init__(self, t):
        self._t = t

    @classmethod
    def strptime(cls, token, fmt):
        if fmt != "%Y-%m-%d %H:%M:%S":
            raise AssertionError('datetime shim: unexpected format %r' % (fmt,))
        try:
            return cls(cls._table[token])
        except KeyError:
            raise ValueError("time data %r does not match format %r" % (token, fmt))

    @classmethod
    def utcnow(cls):
        return cls(cls._clock())

    @classmethod
    def now(cls, tz=None):
        return cls(cls._clock())

    def __sub__(self, o):
        if isinstance(o, SymDT):
            return SymDelta(self._t - o._t)
        if isinstance(o, SymDelta):
            return SymDT(self._t - o._s)
        return NotImplemented

    def __add__(self, o):
        if isinstance(o, SymDelta):
            return SymDT(self._t + o._s)
        return NotImplemented

    __radd__ = __add__

    def __eq__(self, o):
        return isinstance(o, SymDT) and self._t == o._t

    def __ne__(self, o):
        return not self.__eq__(o)

    def __lt__(self, o):
        return self._t < o._t

    def __le__(self, o):
        return self._t <= o._t

    def __gt__(self, o):
        return self._t > o._t

    def __ge__(self, o):
        return self._t >= o._t

    def __hash__(self):
        return 0

    def timestamp(self):
        return self._t

    def __repr__(self):
        return 'SymDT(%r)' % (self._t,)


class DatetimeModuleShim(object):
    datetime = SymDT
    timedelta = staticmethod(_timedelta)


def validate_datetime_shim():
    import datetime as real
    base = real.datetime(2030, 1, 1)
    for t in (-86401, -86400, -1, 0, 1, 59, 86399, 86400, 86401, 172800, 259199, 300000):
        rd = (base + real.timedelta(seconds=t)) - base
        sd = SymDT(t) - SymDT(0)
        got = (sd.days, sd.seconds, sd.total_seconds())
        want = (rd.days, rd.seconds, int(rd.total_seconds()))
        if got != want:
            raise AssertionError('datetime shim mismatch at %d: %r != %r' % (t, got, want))
        if (SymDT(t) <= SymDT(0)) != ((base + real.timedelta(seconds=t)) <= base):
            raise AssertionError('datetime shim comparison mismatch at %d' % t)
    z = _timedelta(seconds=0)
    if (z.days, z.seconds) != (0, 0):
        raise AssertionError('timedelta(0)')


def real_datetime_module(clock_fn, base=None):
    """Native twin: the real datetime module with utcnow()/now() tied to the harness clock."""
    import datetime as real
    base = base or real.datetime(2030, 1, 1)

    class _DT(real.datetime):
        @classmethod
        def utcnow(cls):
            return base + real.timedelta(seconds=clock_fn())

        @classmethod
        def now(cls, tz=None):
            return base + real.timedelta(seconds=clock_fn())

    class _Mod(object):
        datetime = _DT
        timedelta = real.timedelta
        timezone = getattr(real, 'timezone', None)
    return _Mod, base


# ---------------------------------------------------------------- struct
class StructShim(object):
    """Pure-Python struct.pack/unpack for the format subset used by txtorcon/socks.py
    (CrossHair's struct model is unsound for native byte order, DESIGN 1.1)."""

    error = ValueError

    @staticmethod
    def _parse(fmt):
        order = sys.byteorder
        native = True          # native size *and alignment* ('@' or no prefix)
        i = 0
        if fmt and fmt[0] in '!><=@':
            if fmt[0] in '!>':
                order = 'big'
            elif fmt[0] == '<':
                order = 'little'
            native = fmt[0] == '@'
            i = 1
        items = []
        num = ''
        while i < len(fmt):
            ch = fmt[i]
            if ch.isdigit():
                num += ch
            elif ch in 'BHsp':
                n = int(num) if num else 1
                if ch in 'sp':
                    items.append((ch, n))
                else:
                    for _ in range(n):
                        items.append(('h' if (ch == 'H' and native) else ch, 1))
                num = ''
            else:
                raise AssertionError('struct shim: unsupported format %r' % (fmt,))
            i += 1
        return order, items

    @classmethod
    def pack(cls, fmt, *args):
        order, items = cls._parse(fmt)
        if len(items) != len(args):
            raise cls.error('pack expected %d items for packing (got %d)' % (len(items), len(args)))
        out = b''
        for (code, n), a in zip(items, args):
            if code == 'B':
                if not isinstance(a, int):
                    raise cls.error('required argument is not an integer')
                if not (0 <= a <= 255):
                    raise cls.error('ubyte format requires 0 <= number <= 255')
                out += a.to_bytes(1, 'big')
            elif code == 'H' or code == 'h':     # 'h' = native-aligned unsigned short
                if not isinstance(a, int):
                    raise cls.error('required argument is not an integer')
                if not (0 <= a <= 65535):
                    raise cls.error('ushort format requires 0 <= number <= 65535')
                if code == 'h' and len(out) % 2:
                    out += b'\x00'
                out += a.to_bytes(2, order)
            elif code == 'p':                    # pascal string: length octet (clamped) + count-1 octets
                if not isinstance(a, (bytes, bytearray)):
                    raise cls.error("argument for 'p' must be a bytes object")
                a = bytes(a)
                if n == 0:
                    continue
                body = a[:n - 1]
                ln = len(body)
                out += (ln if ln < 255 else 255).to_bytes(1, 'big') + body + b'\x00' * (n - 1 - ln)
            else:
                if not isinstance(a, (bytes, bytearray)):
                    raise cls.error("argument for 's' must be a bytes object")
                a = bytes(a)
                ln = len(a)
                if ln >= n:
                    out += a[:n]
                else:
                    out += a + b'\x00' * (n - ln)
        return out

    @classmethod
    def calcsize(cls, fmt):
        _o, items = cls._parse(fmt)
        size = 0
        for c, n in items:
            if c == 'B':
                size += 1
            elif c == 's' or c == 'p':
                size += n
            else:
                if c == 'h' and size % 2:
                    size += 1
                size += 2
        return size

    @classmethod
    def unpack(cls, fmt, data):
        order, items = cls._parse(fmt)
        need = cls.calcsize(fmt)
        if len(data) != need:
            raise cls.error('unpack requires a buffer of %d bytes' % need)
        out = []
        pos = 0
        for code, n in items:
            if code == 'B':
                out.append(data[pos])
                pos += 1
            elif code == 'H' or code == 'h':
                if code == 'h' and pos % 2:
                    pos += 1
                out.append(int.from_bytes(data[pos:pos + 2], order))
                pos += 2
            elif code == 'p':
                if n == 0:
                    out.append(b'')
                else:
                    ln = min(data[pos], n - 1)
                    out.append(bytes(data[pos + 1:pos + 1 + ln]))
                pos += n
            else:
                out.append(bytes(data[pos:pos + n]))
                pos += n
        return tuple(out)


def struct_formats_in(path):
    """AST scan: every literal format string passed to struct.pack/unpack in a source file."""
    import ast
    with open(path) as f:
        tree = ast.parse(f.read())
    fmts = set()
    dynamic = 0
    for node in ast.walk(tree):
        if isinstance(node, ast.Call) and isinstance(node.func, ast.Attribute) and \
                isinstance(node.func.value, ast.Name) and node.func.value.id == 'struct' and \
                node.func.attr in ('pack', 'unpack', 'calcsize'):
            a0 = node.args[0]
            if isinstance(a0, ast.Constant) and isinstance(a0.value, str):
                fmts.add(a0.value)
            elif isinstance(a0, ast.Call) and isinstance(a0.func, ast.Attribute) and a0.func.attr == 'format' \
                    and isinstance(a0.func.value, ast.Constant):
                fmts.add(a0.func.value.value)   # template, e.g. '!BBBBB{}sH'
                dynamic += 1
            else:
                dynamic += 1
                fmts.add('<dynamic>')
    return fmts


def validate_struct_shim(fmts):
    import struct as real
    vals = {'B': [0, 1, 127, 255], 'H': [0, 1, 255, 256, 0x1234, 65535]}
    vals['h'] = vals['H']
    for f in fmts:
        if f == '<dynamic>':
            raise AssertionError('struct shim: non-literal format in socks.py; extend the scan')
        for n in (0, 1, 3, 16, 255, 256, 300):
            fmt = f.replace('{}', str(n)) if '{}' in f else f
            order, items = StructShim._parse(fmt)
            for variant in range(4):
                args = []
                for code, cnt in items:
                    if code == 's' or code == 'p':
                        args.append(bytes((k % 250) + 1 for k in range(max(0, cnt + variant - 1))))
                    else:
                        v = vals[code]
                        args.append(v[(variant * 2 + len(args)) % len(v)])
                a = real.pack(fmt, *args)
                b = StructShim.pack(fmt, *args)
                if a != b:
                    raise AssertionError('struct shim pack mismatch for %r %r: %r != %r' % (fmt, args, a, b))
                try:
                    ru = real.unpack(fmt, a)
                except SystemError:      # CPython: unpacking '0p' asks for a negative size
                    continue
                if ru != StructShim.unpack(fmt, a):
                    raise AssertionError('struct shim unpack mismatch for %r' % (fmt,))
            if '{}' not in f:
                break


# ---------------------------------------------------------------- integer clock
def make_int_clock():
    """twisted.internet.task.Clock whose times stay (symbolic) ints: Twisted's DelayedCall
    initialises delayed_time to the float 0.0, which would turn every comparison into a
    floating-point solver query.  Same code, integer zero."""
    from twisted.internet import task, base, error

    class IntDelayedCall(base.DelayedCall):
        def __init__(self, *a, **kw):
            base.DelayedCall.__init__(self, *a, **kw)
            self.delayed_time = 0

        def reset(self, secondsFromNow):
            if self.cancelled:
                raise error.AlreadyCancelled
            elif self.called:
                raise error.AlreadyCalled
            newTime = self.seconds() + secondsFromNow
            if newTime < self.time:
                self.delayed_time = 0
                self.time = newTime
                self.resetter(self)
            else:
                self.delayed_time = newTime - self.time

        def delay(self, secondsLater):
            if self.cancelled:
                raise error.AlreadyCancelled
            elif self.called:
                raise error.AlreadyCalled
            self.delayed_time += secondsLater
            if self.delayed_time < 0:
                self.activate_delay()
                self.resetter(self)

        def activate_delay(self):
            self.time += self.delayed_time
            self.delayed_time = 0

    class IntClock(task.Clock):
        rightNow = 0

        def callLater(self, delay, callable, *args, **kw):
            dc = IntDelayedCall(self.seconds() + delay, callable, args, kw,
                                self.calls.remove, lambda c: None, self.seconds)
            self.calls.append(dc)
            self._sortCalls()
            return dc
    return IntClock()
