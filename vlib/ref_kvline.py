"""Reference decoder for Tor's control-port key=value line grammar (kvline.c with
KV_QUOTED: items separated by runs of SP/TAB/CR/VT/LF, key up to '=', value either a
C-escaped QuotedString or a run of non-whitespace).  Written from tor's
src/lib/encoding/kvline.c and cstring.c (unescape_string); independent of txtorcon."""

WS = ' \t\r\n\x0b'
_SIMPLE = {'n': '\n', 't': '\t', 'r': '\r', '"': '"', "'": "'", '\\': '\\'}


def decode_items(s):
    """-> list of (key or None, value or None), or None when the text is malformed."""
    out = []
    i = 0
    n = len(s)
    while True:
        while i < n and s[i] in WS:
            i += 1
        if i >= n:
            return out
        j = i
        while j < n and s[j] not in WS and s[j] != '=':
            j += 1
        if j < n and s[j] == '=':
            key = s[i:j]
            i = j + 1
        else:
            out.append((s[i:j], None))
            i = j
            continue
        if i < n and s[i] == '"':
            i += 1
            val = []
            closed = False
            while i < n:
                c = s[i]
                if c == '"':
                    closed = True
                    i += 1
                    break
                if c == '\\':
                    i += 1
                    if i >= n:
                        return None
                    e = s[i]
                    if e in _SIMPLE:
                        val.append(_SIMPLE[e])
                        i += 1
                    elif e in '01234567':
                        k = i
                        v = 0
                        while k < n and k < i + 3 and s[k] in '01234567':
                            v = v * 8 + (ord(s[k]) - 48)
                            k += 1
                        if v > 255:
                            return None
                        val.append(chr(v))
                        i = k
                    elif e == 'x' or e == 'X':
                        if i + 2 < n + 0 and all(ch in '0123456789abcdefABCDEF' for ch in s[i + 1:i + 3]) and len(s[i + 1:i + 3]) == 2:
                            val.append(chr(int(s[i + 1:i + 3], 16)))
                            i += 3
                        else:
                            return None
                    else:
                        val.append(e)
                        i += 1
                elif c == '\n':
                    return None
                else:
                    val.append(c)
                    i += 1
            if not closed:
                return None
            if i < n and s[i] not in WS:
                return None
            out.append((key, ''.join(val)))
        else:
            j = i
            while j < n and s[j] not in WS:
                j += 1
            out.append((key, s[i:j]))
            i = j


def encode_quoted(v):
    """Reference QuotedString encoder (used where txtorcon is the *decoder*)."""
    out = ['"']
    for c in v:
        if c == '\\':
            out.append('\\\\')
        elif c == '"':
            out.append('\\"')
        elif c == '\n':
            out.append('\\n')
        elif c == '\r':
            out.append('\\r')
        elif c == '\t':
            out.append('\\t')
        else:
            out.append(c)
    out.append('"')
    return ''.join(out)
