"""Independent RFC 1928 codecs (plus Tor's RESOLVE 0xF0 / RESOLVE_PTR 0xF1 extensions).
Written from the RFC; no txtorcon code."""
import socket


def decode_request(b):
    """-> dict(ver, cmd, rsv, atyp, addr(bytes), port, length) or None when b is not exactly one request."""
    if len(b) < 7:
        return None
    ver, cmd, rsv, atyp = b[0], b[1], b[2], b[3]
    if atyp == 1:
        n = 4
        addr = b[4:8]
        off = 8
    elif atyp == 4:
        n = 16
        addr = b[4:20]
        off = 20
    elif atyp == 3:
        n = b[4]
        addr = b[5:5 + n]
        off = 5 + n
    else:
        return None
    if len(addr) != n or len(b) != off + 2:
        return None
    port = b[off] * 256 + b[off + 1]
    return {'ver': ver, 'cmd': cmd, 'rsv': rsv, 'atyp': atyp, 'addr': addr, 'port': port}


def pack_v4(text):
    return socket.inet_pton(socket.AF_INET, text)


def pack_v6(text):
    return socket.inet_pton(socket.AF_INET6, text)


def parse_reply_stream(s):
    """Classify a server byte stream: returns (kind, info, consumed)
    kind: 'incomplete' | 'bad-method' | 'error' | 'malformed' | 'success'
    For success info = (atyp, addr bytes, port) and consumed = offset of the first application byte."""
    if len(s) < 2:
        return ('incomplete', None, 0)
    if s[0] != 5 or s[1] != 0:
        return ('bad-method', (s[0], s[1]), 2)
    r = s[2:]
    if len(r) < 4:
        return ('incomplete', None, 0)
    ver, rep, _rsv, atyp = r[0], r[1], r[2], r[3]
    if ver != 5:
        return ('malformed', ('version', ver), 0)
    if atyp == 1:
        need = 10
    elif atyp == 4:
        need = 22
    elif atyp == 3:
        if len(r) < 5:
            return ('incomplete', None, 0) if rep == 0 else ('error', rep, 0)
        need = 7 + r[4]
    else:
        if rep != 0:
            return ('error', rep, 0)
        return ('malformed', ('atyp', atyp), 0)
    if rep != 0:
        return ('error', rep, 0)
    if len(r) < need:
        return ('incomplete', None, 0)
    if atyp == 3:
        addr = r[5:need - 2]
    else:
        addr = r[4:need - 2]
    port = r[need - 2] * 256 + r[need - 1]
    return ('success', (atyp, addr, port), 2 + need)
