"""Test doubles shared by harnesses (environment side, never txtorcon code)."""


class ListTransport(object):
    """ITransport double that records writes verbatim in a Python list (no BytesIO, so
    symbolic bytes stay symbolic)."""
    disconnecting = False
    connected = True

    def __init__(self):
        self.chunks = []
        self.lost = 0
        self.aborted = 0

    def write(self, data):
        self.chunks.append(data)

    def writeSequence(self, seq):
        for d in seq:
            self.chunks.append(d)

    def value(self):
        return b''.join(self.chunks)

    def clear(self):
        self.chunks = []

    def loseConnection(self):
        self.lost += 1
        self.disconnecting = True

    def abortConnection(self):
        self.aborted += 1
        self.disconnecting = True

    def getPeer(self):
        from twisted.internet.address import IPv4Address
        return IPv4Address('TCP', '127.0.0.1', 9051)

    def getHost(self):
        from twisted.internet.address import IPv4Address
        return IPv4Address('TCP', '127.0.0.1', 40000)

    def registerProducer(self, p, s):
        pass

    def unregisterProducer(self):
        pass


class Outcome(object):
    """Records how often and with what a Deferred fired."""

    def __init__(self, d=None):
        self.ok = 0
        self.err = 0
        self.value = None
        self.failure = None
        if d is not None:
            self.watch(d)

    def watch(self, d):
        d.addCallbacks(self._cb, self._eb)
        return self

    def _cb(self, v):
        self.ok += 1
        self.value = v
        return None

    def _eb(self, f):
        self.err += 1
        self.failure = f
        return None

    @property
    def fired(self):
        return self.ok + self.err

    def exc(self):
        return self.failure.value if self.failure is not None else None


def new_protocol():
    """A real TorControlProtocol wired to a ListTransport, authentication skipped
    (transport assigned directly; authentication is C04's subject)."""
    from txtorcon.torcontrolprotocol import TorControlProtocol
    from vlib import api
    with api.no_tracing():
        p = TorControlProtocol()
        t = ListTransport()
        p.transport = t
    return p, t
