"""Harness-side API: conditions, assumptions, reachability marks.

A *condition* is a plain Python function with annotated parameters
(int / str / bool / bytes).  Under the worker the un-pinned parameters are
CrossHair symbolic values; natively (replay) they are ordinary values.  The
function returns '' when every monitor held and a short reason otherwise.
"""
import inspect

MODE = 'native'          # 'symbolic' while a path is explored under the tracer
_reached = [0]
_notes = []


class Skip(Exception):
    """Precondition not met (native mode)."""


def assume(cond):
    """Restrict the quantifier: paths where cond is false are outside the claim."""
    if cond:
        return
    if MODE == 'symbolic':
        from crosshair.util import IgnoreAttempt
        raise IgnoreAttempt('assume')
    raise Skip()


def reached():
    """Mark that this path arrived at the harness's interesting end state."""
    _reached[0] += 1


def note(x):
    """Attach a small concrete annotation to the current path (for samples)."""
    _notes.append(x)


def reset_path():
    _reached[0] = 0
    del _notes[:]


def path_reached():
    return _reached[0]


def path_notes():
    return list(_notes)


class Cond(object):
    def __init__(self, fn, tiers, doc=None):
        self.fn = fn
        self.name = fn.__name__
        self.tiers = tiers
        self.doc = doc or (fn.__doc__ or '').strip()
        self.sig = inspect.signature(fn)


def cond(**tiers):
    """Decorator.  tiers = quick=dict(parts=[{...}], pins={...}, budget=s), thorough=...

    parts  : list of dicts pinning some parameters to concrete values (one
             worker process per part); default [{}]
    pins   : dict of parameters pinned for every part of that tier (bounds)
    budget : CPU seconds per part before the part is reported inconclusive
    """
    def deco(fn):
        c = Cond(fn, tiers)
        fn.__cond__ = c
        return fn
    return deco


def conditions_of(module):
    out = []
    for name, obj in vars(module).items():
        c = getattr(obj, '__cond__', None)
        if c is not None and c.fn is obj:
            out.append(c)
    out.sort(key=lambda c: c.fn.__code__.co_firstlineno)
    return out


def no_tracing():
    """Context manager: run concrete initialisation natively even under the tracer."""
    if MODE == 'symbolic':
        from crosshair.tracers import NoTracing
        return NoTracing()
    import contextlib
    return contextlib.nullcontext()


def concrete(v):
    """Realise a symbolic value (forks per value under the tracer). Native: identity."""
    if MODE == 'symbolic':
        from crosshair.core import deep_realize
        return deep_realize(v)
    return v


def R(tag, fmt='', *vals):
    """Reason string: 'tag' alone under the tracer (formatting symbolic values would realise
    them and fan the path out per value); 'tag: details' natively (replay)."""
    if MODE == 'symbolic' or not fmt:
        return tag
    try:
        return tag + ': ' + (fmt % vals)
    except Exception:
        return tag + ': ' + fmt + ' ' + repr(vals)


_known_ids = [None]
WITNESS = [False]     # set by the runner while it replays a known finding's witness: no carve-outs then


def known(fid):
    """True when known_findings.json lists finding `fid` (its region is then carved out of the
    exhaustive conditions by the harness and re-checked by the finding's witness)."""
    if WITNESS[0]:
        return False
    if _known_ids[0] is None:
        import json
        import os
        p = os.path.join(os.path.dirname(os.path.dirname(os.path.abspath(__file__))), 'known_findings.json')
        try:
            with open(p) as f:
                _known_ids[0] = set(x['id'] for x in json.load(f).get('findings', []))
        except IOError:
            _known_ids[0] = set()
    return fid in _known_ids[0]


def pick(v, lo, hi):
    """Concretise a bounded symbolic int by an explicit comparison chain (one path per value,
    cheaper than model-based realisation).  Native: identity."""
    if MODE != 'symbolic':
        return v
    for k in range(lo, hi + 1):
        if v == k:
            return k
    from crosshair.util import IgnoreAttempt
    raise IgnoreAttempt('pick out of range')


def pick_from(v, values):
    """Like pick() for an explicit list of admissible values."""
    if MODE != 'symbolic':
        if v not in values:
            raise Skip()
        return v
    for k in values:
        if v == k:
            return k
    from crosshair.util import IgnoreAttempt
    raise IgnoreAttempt('pick_from: not admissible')
