"""Determinism prelude and import plumbing shared by every harness.

Everything here is an environment stub in the sense of DESIGN.md section 1.2: it
does not touch /repo, it only assigns into module namespaces of the already
imported real code.
"""
import gc
import os
import sys

REPO = os.environ.get('VERIF_REPO', '/repo')
VERIF = os.path.dirname(os.path.dirname(os.path.abspath(__file__)))

_installed = [False]


def repo_on_path():
    sys.dont_write_bytecode = True
    if REPO not in sys.path:
        sys.path.insert(0, REPO)
    if VERIF not in sys.path:
        sys.path.insert(1, VERIF)


class _NullLog(object):
    def msg(self, *a, **kw):
        pass

    def err(self, *a, **kw):
        pass

    def debug(self, *a, **kw):
        pass

    def __call__(self, *a, **kw):
        pass


NULLLOG = _NullLog()


STRIPPED = []


def _install_log_stripper():
    """Import hook for txtorcon.*: expression statements that only call a logger
    (txtorlog.msg(...), log.msg(...), log.err(...)) are compiled as `pass`.  Logging is not
    observed by any property, and the *arguments* of those calls format protocol data
    ("cmd: {}".format(data)), which realises symbolic values under CrossHair.  Line numbers
    are preserved; nothing is written to /repo."""
    import ast
    import importlib.abc
    import importlib.machinery

    class Strip(ast.NodeTransformer):
        def visit_Expr(self, node):
            c = node.value
            if isinstance(c, ast.Call) and isinstance(c.func, ast.Attribute) and \
                    isinstance(c.func.value, ast.Name) and c.func.value.id in ('txtorlog', 'log') and \
                    c.func.attr in ('msg', 'err', 'debug', 'info', 'warn'):
                STRIPPED.append(node.lineno)
                return ast.copy_location(ast.Pass(), node)
            return node

    class Loader(importlib.machinery.SourceFileLoader):
        def get_code(self, fullname):
            path = self.get_filename(fullname)
            data = self.get_data(path)
            tree = Strip().visit(ast.parse(data, filename=path))
            ast.fix_missing_locations(tree)
            return compile(tree, path, 'exec', dont_inherit=True)

    class Finder(importlib.abc.MetaPathFinder):
        def find_spec(self, fullname, path, target=None):
            if fullname != 'txtorcon' and not fullname.startswith('txtorcon.'):
                return None
            spec = importlib.machinery.PathFinder.find_spec(fullname, path, target)
            if spec is not None and isinstance(spec.loader, importlib.machinery.SourceFileLoader):
                spec.loader = Loader(spec.loader.name, spec.loader.path)
            return spec

    sys.meta_path.insert(0, Finder())


def install():
    """Idempotent; call once per process before any txtorcon code runs under the tracer."""
    if _installed[0]:
        return
    _installed[0] = True
    repo_on_path()
    assert 'txtorcon' not in sys.modules, 'prelude.install() must run before txtorcon is imported'
    if not os.environ.get('VERIF_NO_STRIP'):
        _install_log_stripper()      # (the unstripped replay pass, vlib/unstripped.py, runs the real logging statements)
    gc.disable()
    import warnings
    warnings.simplefilter('ignore')

    # 1. Unhandled-error logging at GC time is a source of non-determinism.
    from twisted.internet import defer
    defer.DebugInfo.__del__ = lambda self: None

    # 2. twisted.python.deprecate._ModuleProxy is incompatible with CrossHair's
    #    object construction (see DESIGN 1.1): tolerate a missing 'proxy'.
    from twisted.python import deprecate
    st = getattr(deprecate, '_InternalState', None)
    if st is not None:
        def _ga(self, name, _orig=st.__getattribute__):
            try:
                return _orig(self, name)
            except AttributeError:
                return object.__getattribute__(self, name)
        st.__getattribute__ = _ga

    # 3. logging: replace txtorlog / twisted log in the txtorcon module namespaces.
    import txtorcon  # noqa: F401  (the real code, from REPO)
    assert os.path.realpath(os.path.dirname(txtorcon.__file__)) == \
        os.path.realpath(os.path.join(REPO, 'txtorcon')), \
        'txtorcon imported from %s, expected %s' % (txtorcon.__file__, REPO)
    for name, mod in list(sys.modules.items()):
        if not name.startswith('txtorcon') or mod is None:
            continue
        if hasattr(mod, 'txtorlog'):
            mod.txtorlog = NULLLOG
        if hasattr(mod, 'log') and getattr(mod.log, '__name__', '') in ('twisted.python.log', 'txtorcon.log'):
            mod.log = NULLLOG
    import txtorcon.log as tlog
    tlog.txtorlog = NULLLOG


def reset_module_state():
    """Module-level state of txtorcon that survives a call; reset at the top of every path."""
    import txtorcon.circuit as circuit
    if hasattr(circuit._get_circuit_attacher, 'attacher'):
        try:
            del circuit._get_circuit_attacher.attacher
        except AttributeError:
            pass
    import txtorcon.endpoints as endpoints
    if hasattr(endpoints, '_global_tor'):
        endpoints._global_tor = None
    if hasattr(endpoints, '_global_tor_lock'):
        from twisted.internet import defer
        endpoints._global_tor_lock = defer.DeferredLock()
    import txtorcon.util as util
    if hasattr(util, 'CRYPTOVARIABLE_EQUALITY_COMPARISON_NONCE'):
        util.CRYPTOVARIABLE_EQUALITY_COMPARISON_NONCE = b'\x00' * 32


def source_digest(relpaths):
    import hashlib
    out = {}
    for rp in relpaths:
        p = os.path.join(REPO, rp)
        try:
            with open(p, 'rb') as f:
                out[rp] = hashlib.sha256(f.read()).hexdigest()[:16]
        except IOError:
            out[rp] = 'missing'
    return out
