"""Replay sampled paths natively against txtorcon imported WITHOUT the log-stripping import hook.

The symbolic exploration compiles txtorcon's logging statements away (their arguments format protocol data, which
realises symbolic values).  That cut assumes evaluating those arguments has no effect of its own.  This pass checks the
assumption on concrete inputs: the completed paths the workers sampled are re-run here with the logging statements in
place (the loggers themselves are no-ops); a path that fails here is a counterexample like any other.

usage: python -m vlib.unstripped <in.json> <out.json>     in: [{mod, cond, args}], out: [{..., status, reason}]
"""
import importlib
import json
import os
import sys

os.environ['VERIF_NO_STRIP'] = '1'

from vlib import prelude  # noqa: E402

prelude.repo_on_path()


def main(argv):
    from vlib.worker import run_native, unjson
    items = json.load(open(argv[0]))
    out = []
    mods = {}
    for it in items:
        mod = mods.get(it['mod'])
        if mod is None:
            mod = importlib.import_module(it['mod'])
            if hasattr(mod, 'setup'):
                mod.setup('native')
            mods[it['mod']] = mod
        fn = getattr(mod, it['cond'])
        st, reason, _r = run_native(mod, fn, unjson(it['args']))
        out.append({'mod': it['mod'], 'cond': it['cond'], 'args': it['args'], 'status': st, 'reason': reason[-600:]})
    json.dump(out, open(argv[1], 'w'))


if __name__ == '__main__':
    main(sys.argv[1:])
